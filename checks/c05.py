"""C05 - static validation is complete; rejections are ParseError / CompilationError only.

valid   : well-formed programs from the typed generators (plain, aggregate, subquery, pivot; text
          and AST) must compile.
rules   : enumerated single-rule violations (unknown names, every ill-typed operand pair of every
          operator, every ill-typed argument tuple of every scalar function, aggregate rules,
          positional references, PIVOT, COALESCE, unhashable keys, IN-subquery width, OPEN/CLOSE,
          placeholders, invalid dates, oversized numbers, empty input) must be rejected with an
          exception of the ProgrammingError family (ParseError / CompilationError).
noise   : token-level mutations of valid statements and token soups, parsed and compiled on a
          connection with typed tables: any other exception class is a violation (bucketed by type
          and innermost beanquery frame).
Every error location must be a valid span of the text and render without raising."""
import itertools

from hypothesis import strategies as st

import beanquery
import beanquery.compiler
import beanquery.shell

from checks import c06
from vlib import bql, gen, harness, jsonio, ledgers
from vlib.runner import exc_sig

ID = 'C05'
RULE = ('rules: one statement per (rule, site), each executed from text and, where possible, from the AST; distinct = '
        '(rule, statement). noise: mutated/soup texts; non-trivial = the text gets beyond its first keyword (error position '
        '> 8 or parsed). valid: generated well-formed statements; non-trivial = has GROUP BY/ORDER BY/subquery/pivot.')
ASSUMPTIONS = ['a wrong container kind for parameters (mapping vs sequence) deliberately raises TypeError and is not asserted',
               'execution-time domain errors of partial functions are out of scope (C04/C18)',
               'ill-typed function argument tuples are asserted only where no overload matches under subclassing either '
               '(bool is accepted where int is; NULL/object match untyped parameters)']

TYPES = {'i': 'int', 'j': 'int', 'd': 'decimal', 's': 'str', 't': 'date', 'b': 'bool', 'o': 'object', 'st': 'set', 'di': 'dict'}
TABLE = {'name': 'm', 'cols': [('rid', 'int')] + list(TYPES.items()), 'rows': []}
OTHER = {'name': 'u', 'cols': [('uid', 'int'), ('w', 'int')], 'rows': []}
OK = (beanquery.ProgrammingError,)


def connection():
    conn, hts = harness.connect([TABLE, OTHER], default='m')
    conn.tables['entries'] = hts['m']       # PRINT reads the `entries` table
    return conn


def ledger_rule_cases(conn):
    """Rule violations that need Beancount-backed tables: structured attributes, and pairs of
    different columns of one datatype (which must not be taken for one another)."""
    out = []
    add = lambda rule, text: out.append((rule, text, None))  # noqa: E731
    for text in ('SELECT position.nope', 'SELECT position.units.nope', 'SELECT entry.nope', 'SELECT account.x',
                 'SELECT position.units.number.x', 'SELECT cost(position).nope', 'SELECT date.year',
                 'SELECT open.nope FROM #accounts', 'SELECT amount.nope FROM #prices'):
        add('unknown-attribute', text)
    for text in ('SELECT meta()', "SELECT meta('a', 'b')", "SELECT entry_meta('k', 1)", 'SELECT any_meta()', 'SELECT meta(1)',
                 "SELECT meta('k', nope)", "SELECT entry_meta('k', nofunc(1))", "SELECT any_meta('a', 'b', 'c')", 'SELECT entry_meta(date)',
                 "SELECT account FROM meta() = 1", "SELECT open_meta()", "SELECT commodity_meta(1, 2)"):
        add('unknown-function-or-arity', text)
    for text in ("SELECT account['x']", "SELECT position['x']", "SELECT tags['x']", "SELECT meta['a']['b']",
                 "SELECT entry['x']"):
        add('not-subscriptable', text)
    for name, table in sorted(conn.tables.items()):
        if name in ('', 'postings', 'entries'):
            continue
        cols = [(n, c.dtype) for n, c in table.columns.items()]
        for (a, ta), (b, tb) in itertools.permutations(cols, 2):
            if ta is tb and ta in (str, int, bool) or (ta is tb and ta.__name__ in ('date', 'Decimal')):
                add('uncovered-target', f'SELECT {a}, count(*) FROM #{name} GROUP BY {b}')
    return out


SPANS = {}      # statement text -> text of the offending node, where the error must point


def rule_cases():
    """[(rule, text, params)] - every one must be rejected."""
    out = []
    SPANS.clear()

    def add(rule, text, params=None, span=None):
        out.append((rule, text, params))
        if span is not None:
            SPANS[text] = span
    add('unknown-table', 'SELECT i FROM #nope', span='#nope')
    add('unknown-table', 'SELECT 1 FROM #M')
    add('unknown-table', 'SELECT i FROM #m WHERE i IN (SELECT w FROM #zz)')
    add('unknown-column', 'SELECT i,\n       nope + 1 FROM #m', span='nope')
    add('unknown-column', 'SELECT i FROM #m WHERE i > 0 AND length(nope) = 1', span='nope')
    add('unknown-function-or-arity', 'SELECT i, nofunc(i, 2) AS x FROM #m', span='nofunc(i, 2)')
    add('attribute-of-unstructured', 'SELECT s, i.x FROM #m', span='i.x')
    add('not-subscriptable', "SELECT s['k'] AS v FROM #m", span="s['k']")
    add('coalesce', 'SELECT i, coalesce(i, d) FROM #m', span='coalesce(i, d)')
    add('invalid-date', 'SELECT i FROM #m WHERE t = 2021-02-29', span='2021-02-29')
    for clause in ('SELECT nope FROM #m', 'SELECT i FROM #m WHERE nope = 1', 'SELECT i, count(*) FROM #m GROUP BY nope',
                   'SELECT i FROM #m ORDER BY nope', 'SELECT i FROM #m ORDER BY nope + 1', 'SELECT i FROM nope = 1',
                   'SELECT count(*) FROM #m GROUP BY i HAVING nope > 0', 'SELECT w FROM #m',
                   'SELECT i FROM (SELECT i AS k FROM #m)', 'SELECT k FROM (SELECT i FROM #m)',
                   'SELECT i FROM #m WHERE i IN (SELECT i FROM #u)'):
        add('unknown-column', clause)
    for text in ('SELECT nofunc(i) FROM #m', 'SELECT nofunc() FROM #m', 'SELECT length(s, s) FROM #m', 'SELECT year() FROM #m',
                 'SELECT sum() FROM #m', 'SELECT count() FROM #m', 'SELECT coalesce() FROM #m', 'SELECT sum(i, i) FROM #m',
                 'SELECT first() FROM #m', 'SELECT upper(*) FROM #m', 'SELECT sum(*) FROM #m'):
        add('unknown-function-or-arity', text)
    for text in ('SELECT i.x FROM #m', 'SELECT s.length FROM #m', 'SELECT t.year FROM #m', 'SELECT di.x FROM #m',
                 'SELECT length(s).x FROM #m'):
        add('attribute-of-unstructured', text)
    for text in ("SELECT i['x'] FROM #m", "SELECT s['x'] FROM #m", "SELECT st['x'] FROM #m", "SELECT t['x'] FROM #m",
                 "SELECT di['x']['y'] FROM #m"):
        add('not-subscriptable', text)
    # ill-typed operand pairs of every binary operator
    ops = {**bql.ARITH, **{k: v for k, v in bql.CMP.items() if k not in ('in', 'notin')}}
    for op, sym in ops.items():
        for (a, ta), (b, tb) in itertools.product(TYPES.items(), repeat=2):
            if a == 'j' or b == 'j':
                continue
            l, r = bql.implicit(ta, tb)
            well = bql.arith_type(op, l, r) is not None if op in bql.ARITH else bql.cmp_ok(op, l, r)
            if not well:
                add(f'ill-typed:{op}', f'SELECT {a} {sym} {b} FROM #m', span=f'{a} {sym} {b}')
                add(f'ill-typed:{op}', f'SELECT i,\n  rid FROM #m\n WHERE b AND  {a} {sym} {b}', span=f'{a} {sym} {b}')
    for a, ta in TYPES.items():
        if ta not in bql.NUM and a not in ('j', 'b'):      # bool is accepted where int is
            add('ill-typed:neg', f'SELECT -{a} FROM #m', span=f'-{a}')
    for a, b, c in itertools.product('idstb', repeat=3):
        ts = [TYPES[a], TYPES[b], TYPES[c]]
        if not (all(t in bql.NUM for t in ts) or (ts[0] in ('date', 'str') and ts.count(ts[0]) == 3)):
            add('ill-typed:between', f'SELECT {a} BETWEEN {b} AND {c} FROM #m', span=f'{a} BETWEEN {b} AND {c}')
    # ill-typed argument tuples of scalar functions (only where subclassing cannot match either)
    strict = {'int': 'i', 'decimal': 'd', 'str': 's', 'date': 't', 'set': 'st', 'dict': 'di'}
    for name, sigs in bql.FUNCS.items():
        if any('any' in sig for sig, _ in sigs):
            continue
        arities = {len(sig) for sig, _ in sigs}
        for n in arities:
            for combo in itertools.product(strict, repeat=n):
                accepted = any(len(sig) == n and all(s == c or (s == 'object') for s, c in zip(sig, combo)) for sig, _ in sigs)
                if name == 'length' and combo[0] == 'set':
                    accepted = True          # length() also measures sets and lists
                if not accepted:
                    args = ', '.join(strict[c] for c in combo)
                    add(f'ill-typed:{name}', f'SELECT {name}({args}) FROM #m', span=f'{name}({args})')
    for fn, bad in (('sum', 'st'), ('sum', ['st', 'di'])):
        for a in bad:
            add('ill-typed:sum', f'SELECT sum({a}) FROM #m')
    # aggregate rules
    add('aggregate-in-where', 'SELECT i FROM #m WHERE sum(i) > 0')
    add('aggregate-in-where', 'SELECT i FROM #m WHERE i > 0 AND count(*) > 0')
    add('aggregate-in-where', 'SELECT i FROM #m WHERE i IN (1, 2) OR first(i) = 1')
    add('aggregate-in-from', 'SELECT i FROM sum(i) > 0')
    add('aggregate-in-from', 'SELECT i FROM b AND count(*) > 1 CLEAR')
    add('aggregate-group-key', 'SELECT count(*) FROM #m GROUP BY sum(i)')
    add('aggregate-group-key', 'SELECT sum(i) AS x FROM #m GROUP BY x')
    add('aggregate-group-key', 'SELECT sum(i), s FROM #m GROUP BY 1')
    add('aggregate-group-key', 'SELECT s FROM #m GROUP BY s, max(i) + 1')
    add('aggregate-of-aggregate', 'SELECT sum(sum(i)) FROM #m')
    add('aggregate-of-aggregate', 'SELECT sum(sum(i) + 1) FROM #m')
    add('aggregate-of-aggregate', 'SELECT count(abs(sum(d))) FROM #m')
    add('aggregate-of-aggregate', 'SELECT max(length(first(s))) FROM #m')
    add('aggregate-of-aggregate', 'SELECT s, min(i + count(*)) FROM #m GROUP BY s')
    add('mixed-target', 'SELECT i + sum(j) FROM #m')
    add('mixed-target', 'SELECT s, i + sum(j) FROM #m GROUP BY s, i')
    add('mixed-target', 'SELECT coalesce(i, sum(j)) FROM #m')
    add('mixed-target', 'SELECT s, count(*) > i FROM #m GROUP BY s')
    add('mixed-having', 'SELECT s, count(*) FROM #m GROUP BY s HAVING i + sum(j) > 0')
    add('mixed-having', 'SELECT s, count(*) FROM #m GROUP BY s, i HAVING count(*) > i')
    add('mixed-order-by', 'SELECT s, count(*) FROM #m GROUP BY s ORDER BY i + sum(j)')
    add('mixed-order-by', 'SELECT s, count(*) FROM #m GROUP BY s, i ORDER BY count(*) * i')
    add('uncovered-target', 'SELECT s, i, count(*) FROM #m GROUP BY s')
    add('uncovered-target', 'SELECT s, count(*) FROM #m GROUP BY i')
    add('uncovered-target', 'SELECT s, i + 1, count(*) FROM #m GROUP BY s, i')
    add('uncovered-target', 'SELECT * FROM #m GROUP BY i')
    add('uncovered-order-by', 'SELECT s, count(*) FROM #m GROUP BY s ORDER BY i')
    add('non-aggregate-having', 'SELECT s, count(*) FROM #m GROUP BY s HAVING s = "a"')
    add('non-aggregate-having', 'SELECT s FROM #m GROUP BY s HAVING TRUE')
    for n in (0, 3, 4, 99):
        add('position-out-of-range', f'SELECT s, count(*) FROM #m GROUP BY {n}')
        add('position-out-of-range', f'SELECT s, i FROM #m ORDER BY {n}')
        add('position-out-of-range', f'SELECT s, i FROM #m ORDER BY 1, {n} DESC')
    add('position-out-of-range', 'SELECT s, count(*) FROM #m GROUP BY s, i ORDER BY 3')
    add('position-out-of-range', 'SELECT s, i, count(*) FROM #m GROUP BY 1, 2 PIVOT BY 0, 1')
    add('position-out-of-range', 'SELECT s, i, count(*) FROM #m GROUP BY 1, 2 PIVOT BY 1, 4')
    add('pivot', 'SELECT s, i, count(*) FROM #m GROUP BY 1, 2 PIVOT BY 1, 1')
    add('pivot', 'SELECT s, i, count(*) FROM #m GROUP BY 1, 2 PIVOT BY s, 1')
    add('pivot', 'SELECT s, i, count(*) AS n FROM #m GROUP BY 1, 2 PIVOT BY s, n')
    add('pivot', 'SELECT s, i, count(*) FROM #m GROUP BY 1, 2 PIVOT BY s, nope')
    add('pivot', 'SELECT s, i, j FROM #m PIVOT BY s, i')
    add('pivot', 'SELECT s, count(*) FROM #m GROUP BY s, i PIVOT BY 1, 3')
    add('coalesce', 'SELECT coalesce(i, d) FROM #m')
    add('coalesce', 'SELECT coalesce(s, i) FROM #m')
    add('coalesce', 'SELECT coalesce(i, NULL) FROM #m')
    add('coalesce', 'SELECT coalesce(s, o) FROM #m')
    add('coalesce', 'SELECT coalesce(b, i) FROM #m')
    add('coalesce', 'SELECT coalesce() FROM #m')
    add('unhashable-key', 'SELECT count(*) FROM #m GROUP BY st')
    add('unhashable-key', 'SELECT di, count(*) FROM #m GROUP BY 1')
    add('unhashable-key', 'SELECT st AS k, count(*) FROM #m GROUP BY k')
    add('unhashable-key', 'SELECT di, count(*) FROM #m')                     # implicit grouping
    add('unhashable-key', 'SELECT s, st, sum(i) FROM #m')
    add('unhashable-key', 'SELECT count(*), di AS d FROM #m ORDER BY 1')
    add('in-subquery-width', 'SELECT i FROM #m WHERE i IN (SELECT uid, w FROM #u)')
    add('in-subquery-width', 'SELECT i NOT IN (SELECT * FROM #u) FROM #m')
    add('in-subquery-width', 'SELECT i FROM #m WHERE i IN (SELECT uid, count(*) FROM #u)')
    add('in-right-operand', 'SELECT i IN j FROM #m')
    add('in-right-operand', 'SELECT i FROM #m WHERE s IN 2')
    add('in-right-operand', 'SELECT 1 IN 2 FROM #m')
    add('in-right-operand', 'SELECT s NOT IN t FROM #m')
    add('subselect-as-scalar', 'SELECT (SELECT uid FROM #u) FROM #m')
    add('subselect-as-scalar', 'SELECT i + (SELECT max(w) FROM #u) FROM #m')
    add('subselect-as-scalar', 'SELECT i FROM #m WHERE i = (SELECT max(w) FROM #u)')
    add('subselect-as-scalar', 'SELECT i FROM #m WHERE (SELECT b FROM #m)')
    add('subselect-as-scalar', 'SELECT i FROM #m ORDER BY (SELECT uid FROM #u)')
    add('subselect-as-scalar', 'SELECT count(*) FROM #m GROUP BY (SELECT uid FROM #u)')
    add('subselect-as-scalar', 'SELECT length((SELECT s FROM #m)) FROM #m')
    add('subselect-as-scalar', 'SELECT (SELECT uid FROM #u) IN (1, 2) FROM #m')
    add('subselect-as-scalar', 'SELECT i FROM (SELECT i FROM #m) WHERE i IN (SELECT uid FROM #u WHERE (SELECT 1))')
    add('subselect-as-scalar', 'SELECT i FROM (SELECT 1 FROM #u) > 0')
    add('subselect-as-scalar', 'PRINT FROM (SELECT i FROM #m)')
    add('subselect-as-scalar', 'BALANCES FROM (SELECT i FROM #m)')
    add('subselect-as-scalar', 'JOURNAL FROM (SELECT i FROM #m)')
    # accepted-or-rejected, never another exception (and if accepted, it runs): PIVOT BY inside a sub-select
    add('clean:pivot-subquery', 'SELECT * FROM (SELECT s, t, sum(i) AS x FROM #m GROUP BY 1, 2 PIVOT BY 1, 2)')
    add('clean:pivot-subquery', 'SELECT i FROM #m WHERE i IN (SELECT s, t, sum(i) AS x FROM #m GROUP BY 1, 2 PIVOT BY 1, 2)')
    add('clean:pivot-subquery', 'SELECT i NOT IN (SELECT s, t, sum(i) FROM #m GROUP BY s, t PIVOT BY s, t) FROM #m')
    # constant expressions are folded while compiling: whatever their value, the statement is accepted or rejected cleanly
    for e in ('2000-01-01 - 1000000000000000000', '2000-01-01 + 1000000000000000000', '1000000000000000000 + 2000-01-01',
              '2000-01-01 + 10000000', '0001-01-01 - 1', '9999-12-31 + 1', 'date_add(2000-01-01, 1000000000000000000)',
              'date_add(9999-12-31, 1)', "2000-01-01 + interval('1000000000000000000 days')", "9999-12-31 + interval('1 year')",
              "0001-01-01 - interval('1 day')", "date_bin('1 day', 2000-01-01, 9999-12-31)", "date_trunc('week', 0001-01-01)",
              "date_trunc('decade', 0001-01-01)", 'int(1000000000000000000000.5) % 7', "decimal('1e999999999') * decimal('1e999999999')",
              "decimal('1e999999999') / decimal('1e-999999999')", "round(decimal('1e999'), 2)", "round(1.5, 1000000000)",
              "substr('abc', 1000000000000000000000, 2)", "maxwidth('abc', 1000000000000000000000)", "date(1000000000000000000, 1, 1)",
              "year(2000-01-01) * 1000000000000000000000 * 1000000000000000000000", "date_diff(9999-12-31, 0001-01-01)",
              "date_part('year', 9999-12-31) + 1", "safediv(1, 0)", "safediv(decimal('1e999999999'), decimal('1e-999999999'))",
              "'a' ~ '('", "'a' !~ '*'", "grep('(', 'a')", "grepn('(a', 'a', 1)", "subst('[', 'x', 'a')", "parse_date('x')",
              "parse_date('2020', '%')", "date_bin('0 days', 2020-01-01, 2020-01-01)", "splitcomp('a:b', ':', 5)", "root('a:b', -1)",
              "1 / 0.0", "1 % 0", "-decimal('NaN')", "abs(decimal('-Infinity'))", "decimal('NaN') < 1", "decimal('sNaN') + 1"):
        add('clean:constant-folding', f'SELECT {e} AS x FROM #m')
        add('clean:constant-folding', f'SELECT i FROM #m WHERE {e} IS NULL')
    add('clean:nested-subquery', 'SELECT a FROM (SELECT i AS a FROM #m) WHERE a IN (SELECT w FROM (SELECT w FROM #u))')
    add('open-after-close', 'SELECT i FROM OPEN ON 2020-02-01 CLOSE ON 2020-01-01')
    add('open-after-close', 'SELECT i FROM b OPEN ON 2020-02-01 CLOSE ON 2020-01-31 CLEAR')
    add('open-after-close', 'BALANCES FROM OPEN ON 2021-01-01 CLOSE ON 2020-12-31')
    add('open-after-close', 'JOURNAL FROM i > 0 OPEN ON 2021-01-01 CLOSE ON 2020-12-31')
    add('open-after-close', 'PRINT FROM OPEN ON 2021-01-01 CLOSE ON 2020-12-31')
    add('placeholders', 'SELECT i FROM #m WHERE i = %s', [])
    add('placeholders', 'SELECT i FROM #m WHERE i = %s', [1, 2])
    add('placeholders', 'SELECT i + %s FROM #m WHERE i = %s', [1])
    add('placeholders', 'SELECT i FROM #m WHERE i = %(a)s', {})
    add('placeholders', 'SELECT i FROM #m WHERE i = %(a)s AND j = %(b)s', {'a': 1})
    add('placeholders', 'SELECT i FROM #m WHERE i = %(a)s AND j = %s', {'a': 1})
    add('placeholders', 'SELECT i FROM #m WHERE i = %s AND j = %(a)s', [1])
    for text in ('SELECT 2020-13-45', 'SELECT 2020-02-30 FROM #m', 'SELECT i FROM #m WHERE t > 2019-00-10', 'SELECT 0000-01-01',
                 'SELECT i FROM OPEN ON 2021-02-29', 'SELECT i FROM CLOSE ON 2021-04-31', 'SELECT (2020-01-01, 2020-01-32)',
                 'SELECT 9999-99-99'):
        add('invalid-date', text)
    for text in ('SELECT ' + '9' * 5000, 'SELECT i FROM #m LIMIT ' + '1' * 5000, 'SELECT i FROM #m ORDER BY ' + '7' * 4400,
                 'SELECT i FROM #m GROUP BY ' + '7' * 4400, 'SELECT (1, ' + '8' * 4301 + ')'):
        add('oversized-number', text)
    for text in ('', ' ', '\n', ';', '; comment', '/* c */', 'SELECT', 'SELECT FROM #m', 'SELECT i FROM', 'SELECT i WHERE',
                 'SELECT i GROUP BY', 'SELECT i ORDER', 'SELECT i LIMIT x', 'SELECT i LIMIT -1', 'SELECT i LIMIT 1.5',
                 'SELECT i,, j', 'SELECT (i', 'SELECT i)', "SELECT 'abc", 'SELECT "abc', 'SELECT i AS select', 'SELECT i AS 1',
                 'SELECT select', 'SELECT from FROM #m', 'SELECT i FROM #m #u', 'SELECT i FROM #m, #u', 'SELECT 1 2',
                 'SELECT i IS', 'SELECT i IS NOT', 'SELECT i NOT', 'SELECT i BETWEEN 1', 'SELECT i BETWEEN 1 OR 2',
                 'SELECT i IN ()', 'SELECT (,)', 'SELECT f(,)', 'SELECT f(1,)', 'SELECT %', 'SELECT %(x)', 'SELECT %()s',
                 'SELECT i.', 'SELECT i[', 'SELECT i[x]', 'SELECT i[1]', 'SELECT *, i', 'SELECT i, *', 'SELECT DISTINCT', 'SELECT DISTINCT DISTINCT i',
                 'BALANCES AT', 'BALANCES FROM #m', 'JOURNAL i', 'JOURNAL AT', 'PRINT i', 'PRINT FROM #m', 'PRINT WHERE i', 'EXPLAIN SELECT i',
                 'SELECT i FROM OPEN', 'SELECT i FROM OPEN ON', 'SELECT i FROM OPEN 2020-01-01', 'SELECT i FROM CLOSE ON',
                 'SELECT i FROM CLEAR CLEAR', 'SELECT i FROM CLEAR OPEN ON 2020-01-01', 'SELECT i FROM CLOSE OPEN ON 2020-01-01',
                 'SELECT i PIVOT BY 1', 'SELECT i PIVOT BY 1, 2, 3', 'SELECT i PIVOT BY i + 1, 2', 'SELECT i GROUP BY 1 HAVING',
                 'SELECT 1 < 2 < 3', 'SELECT i = j = 1', 'SELECT NOT', 'SELECT i AND', 'SELECT - ', 'SELECT + + i', 'SELECT i SELECT j'):
        add('syntax', text)
    # the same rules hold over the columns of a FROM-subquery (another table and column class)
    sub = '(SELECT rid, i, j, d, s, t, b, o, st, di FROM #m)'
    skip = ('syntax', 'unknown-table', 'aggregate-in-from', 'open-after-close', 'invalid-date', 'oversized-number', 'clean', 'placeholders', 'in-right-operand')
    nth = 0
    for rule, text, params in list(out):
        kind = rule.split(':')[0]
        if kind in skip or text.count(' FROM #m') != 1 or text in SPANS:
            continue
        if kind == 'ill-typed':
            nth += 1
            if nth % 25:
                continue
        add(rule + ':subquery', text.replace(' FROM #m', ' FROM ' + sub), params)
    return out


def location_problems(exc, text):
    """Validity of the location carried by a ParseError / CompilationError."""
    problems = []
    info = getattr(exc, 'parseinfo', None)
    if info is None:
        return problems
    try:
        src = info.tokenizer.text
        pos, endpos, line = info.pos, info.endpos, info.line
        if not (isinstance(pos, int) and isinstance(endpos, int) and isinstance(line, int)):
            problems.append(f'non-integer location {pos!r} {endpos!r} {line!r}')
        else:
            if not 0 <= pos <= endpos:
                problems.append(f'pos {pos} endpos {endpos}')
            if pos > len(src) or endpos > len(src) + 1:
                problems.append(f'span [{pos}, {endpos}) outside text of length {len(src)}')
            nlines = max(1, len(src.splitlines()))
            if not 0 <= line < max(nlines, src.count(chr(10)) + 1):
                problems.append(f'line {line} of {nlines}')
    except Exception as e:  # noqa: BLE001
        problems.append(f'location attributes raise {e!r}')
    try:
        rendered = beanquery.shell.render_exception(exc)
        if not isinstance(rendered, str):
            problems.append('render_exception did not return text')
    except Exception as e:  # noqa: BLE001
        problems.append(f'render_exception raises {type(e).__name__}: {e}')
    return problems


def root_cause(exc, sig):
    """Failures with one known root cause share one signature, wherever they surface."""
    if isinstance(exc, AttributeError) and "'EvalQuery' object has no attribute" in str(exc):
        return 'subselect-as-scalar:AttributeError'
    return sig


def attempt(conn, query, params=None):
    """-> ('accepted', None) | ('rejected', exc) | ('raised', exc)"""
    try:
        if isinstance(query, str):
            query = conn.parse(query)
        beanquery.compiler.compile(conn, query, params)
        return 'accepted', None
    except OK as exc:
        return 'rejected', exc
    except Exception as exc:  # noqa: BLE001
        return 'raised', exc


def prop_rules(sh, case):
    fails = []
    conn = connection()
    lconn = ledgers.connect(ledgers.SAMPLE)
    plain = connection()
    cases = [(plain, c) for c in rule_cases()] + [(lconn, c) for c in ledger_rule_cases(lconn)]
    if case and case.get('texts') is not None:
        cases = [c for c in cases if c[1][1] in case['texts']]
    elif case and case.get('slice') is not None:
        i, n = case['slice']
        cases = cases[i::n]
    for conn, (rule, text, params) in cases:
        shown = text if len(text) < 120 else text[:60] + '...' + text[-20:]
        outcome, exc = attempt(conn, text, params)
        if rule.startswith('clean:'):
            if outcome == 'accepted':
                try:
                    conn.execute(text, params).fetchall()
                except beanquery.Error:
                    pass
                except Exception as e:  # noqa: BLE001
                    outcome, exc = 'raised', e
            if outcome == 'raised':
                fails.append((exc_sig(exc, f'rules:{rule}'), f'{shown!r} {params!r}: {exc!r}'[:500]))
        elif outcome == 'accepted':
            fails.append((f'rules:{rule}:accepted', f'{shown!r} {params!r}'))
        elif outcome == 'raised':
            fails.append((root_cause(exc, exc_sig(exc, f'rules:{rule}')), f'{shown!r} {params!r}: {exc!r}'[:500]))
        else:
            for p in location_problems(exc, text):
                fails.append((f'rules:{rule}:location', f'{shown!r}: {p}'))
            if text in SPANS:
                info = getattr(exc, 'parseinfo', None)
                where = None if info is None else info.tokenizer.text[info.pos:info.endpos].strip()
                if where != SPANS[text]:
                    fails.append((f'rules:{rule.split(":")[0]}:location-points-elsewhere', f'{shown!r}: error points at {where!r}, offending text is {SPANS[text]!r}'))
        sh.record(f'{rule}|{text}', True, {'rule': rule, 'text': shown} if len(text) < 120 else None)
        sh.count(f'rule:{rule.split(":")[0]}')
    return fails


# ------------------------------------------------------------------ valid programs

@st.composite
def valid_case(draw):
    table = draw(gen.tables(max_cols=5, max_rows=0))
    kind = draw(st.sampled_from(['plain', 'agg', 'agg', 'dupkey', 'subq', 'fromexpr']))
    if kind in ('plain', 'fromexpr'):
        sel = draw(gen.plain_selects(table))
        if kind == 'fromexpr':
            sel['from'] = ('expr', draw(gen.exprs('bool', table['cols'], 2)), None, draw(st.none() | st.just(True)), draw(st.booleans()))
    elif kind == 'agg':
        sel = draw(gen.agg_selects(table))
    elif kind == 'dupkey':
        # the same grouping expression selected twice is still covered by GROUP BY
        k, _ = draw(gen.key_exprs(table['cols']))
        a, _ = draw(gen.agg_calls(table['cols']))
        sel = bql.select(draw(st.permutations([(k, 'k1'), (k, 'k2'), (a, 'a')])), ('table', 't'),
                         group_by=draw(st.sampled_from([[k], None, [['col', 'k1'], ['col', 'k2']]])))
    else:
        inner = draw(gen.plain_selects(table))
        from checks.c08 import rename_outputs, output_cols
        inner = rename_outputs(inner, 0, table['cols'])
        sel = draw(gen.plain_selects({'name': 'x', 'cols': output_cols(inner, table['cols'])}, types=gen.SCALARS))
        sel['from'] = ('subq', inner)
    return {'tables': [table], 'sel': sel, 'text': bql.statement(sel), 'kind': kind, 'via_ast': draw(st.integers(0, 2)) > 0}


def prop_valid(sh, case):
    fails = []
    conn, _ = harness.connect(case['tables'], default='t')
    sel = harness.force_aliases(case['sel']) if case['via_ast'] else case['sel']
    outcome, exc = attempt(conn, bql.to_ast(sel) if case['via_ast'] else case['text'])
    if outcome != 'accepted':
        sig = f"valid:{case['kind']}:{outcome}:" + exc_sig(exc, '').lstrip(':')
        fails.append((sig, f"{case['text']!r}: {exc!r}"))
    s = case['sel']
    nontrivial = bool(s['group_by'] or s['order_by'] or (s['from'] and s['from'][0] != 'table'))
    sh.count(f"valid:{case['kind']}")
    sh.record(jsonio.case_hash([case['text'], case['tables'][0]['cols']]), nontrivial,
              {'text': case['text']} if nontrivial and len(case['text']) < 200 else None)
    return fails


# ------------------------------------------------------------------ noise

def prop_noise(sh, case):
    fails = []
    text = case['text']
    conn = connection()
    try:
        ast = conn.parse(text)
    except OK as exc:
        stage, outcome = 'parse', 'rejected'
        for p in location_problems(exc, text):
            fails.append(('noise:parse-location', f'{text!r}: {p}'))
        pos = getattr(getattr(exc, 'parseinfo', None), 'pos', 0) or 0
        nontrivial = pos > 8
    except Exception as exc:  # noqa: BLE001
        fails.append((exc_sig(exc, 'noise:parse'), f'{text!r}: {exc!r}'))
        stage, outcome, nontrivial = 'parse', 'raised', True
    else:
        stage = 'compile'
        nontrivial = True
        for params in (None, [1], {'a': 1}):
            try:
                beanquery.compiler.compile(conn, ast, params)
                outcome = 'accepted'
                break
            except OK as exc:
                outcome = 'rejected'
                for p in location_problems(exc, text):
                    fails.append(('noise:compile-location', f'{text!r}: {p}'))
            except TypeError as exc:
                if 'query parameters should be' in str(exc):
                    outcome = 'rejected'
                    continue
                fails.append((exc_sig(exc, 'noise:compile'), f'{text!r}: {exc!r}'))
                outcome = 'raised'
                break
            except Exception as exc:  # noqa: BLE001
                fails.append((root_cause(exc, exc_sig(exc, 'noise:compile')), f'{text!r}: {exc!r}'))
                outcome = 'raised'
                break
    sh.count(f'noise:{stage}:{outcome}')
    sh.record(jsonio.case_hash(text), nontrivial, {'text': text, 'outcome': f'{stage}:{outcome}'} if nontrivial and len(text) < 160 else None)
    return fails


COLS = ['i', 'j', 'd', 's', 't', 'b', 'o', 'st', 'di', 'rid', 'nope']


@st.composite
def noise_case(draw):
    base = draw(c06.diff_case())
    text = base['text']
    # retarget identifiers to the typed table so that texts reach the type checker
    if draw(st.booleans()):
        words = text.split(' ')
        words = [draw(st.sampled_from(COLS)) if w in ('a', 'b', 'x1', 'f', '_') else ('#m' if w == '#t' else w) for w in words]
        text = ' '.join(words)
    return {'text': text}


RECOMBINE_POOL = [
    'SELECT i, s FROM #m WHERE i > 0 ORDER BY s DESC',
    'SELECT s, count(*) AS n, sum(i) FROM #m GROUP BY s HAVING count(*) > 1 ORDER BY n',
    'SELECT t, i + j AS k FROM b OPEN ON 2020-01-01 CLOSE ON 2020-06-01 CLEAR',
    'SELECT DISTINCT s FROM #m WHERE s ~ "a" LIMIT 3',
    'SELECT s, t, sum(d) AS x FROM #m GROUP BY 1, 2 PIVOT BY 1, 2',
    'SELECT uid FROM #u WHERE w IN (SELECT i FROM #m) ORDER BY 1',
    'SELECT * FROM (SELECT i AS a, s AS b FROM #m) WHERE a > 1',
    'SELECT i FROM #m WHERE i = %s ORDER BY i',
    'SELECT length(s) AS l, first(t) FROM #m GROUP BY l ORDER BY 2 DESC, l',
    'BALANCES AT cost FROM b CLOSE',
    "JOURNAL 's' AT units FROM OPEN ON 2020-01-01",
    'PRINT FROM i > 0',
]


def recombine_cases():
    return st.fixed_dictionaries({
        'a': st.integers(0, len(RECOMBINE_POOL) - 1), 'b': st.integers(0, len(RECOMBINE_POOL) - 1),
        'take': st.lists(st.sampled_from(['targets', 'from_clause', 'where_clause', 'group_by', 'order_by', 'pivot_by', 'limit', 'distinct',
                                          'having', 'close', 'summary_func']), min_size=1, max_size=4, unique=True)})


def prop_recombine(sh, case):
    """Statement ASTs assembled from the clauses of two parsed statements (the way the shell and the
    BALANCES/JOURNAL expansion build statements): accepted or rejected with a ProgrammingError, nothing else."""
    import copy
    from beanquery.parser import ast as A
    fails = []
    conn = connection()
    a = conn.parse(RECOMBINE_POOL[case['a']])
    b = conn.parse(RECOMBINE_POOL[case['b']])
    new = copy.copy(a)
    for field in case['take']:
        try:
            if field == 'having':
                if getattr(new, 'group_by', None) is not None and getattr(b, 'group_by', None) is not None:
                    new.group_by = A.GroupBy(new.group_by.columns, b.group_by.having)
            elif field == 'close':
                if isinstance(getattr(new, 'from_clause', None), A.From):
                    new.from_clause = A.From(new.from_clause.expression, new.from_clause.open,
                                             getattr(getattr(b, 'from_clause', None), 'close', True), new.from_clause.clear)
            elif hasattr(new, field) and hasattr(b, field):
                setattr(new, field, getattr(b, field))
        except Exception:  # noqa: BLE001 - frozen field: leave as is
            pass
    for params in (None, [1]):
        outcome, exc = attempt(conn, new, params)
        if outcome == 'raised' and not (isinstance(exc, TypeError) and 'query parameters should be' in str(exc)):
            fails.append((root_cause(exc, exc_sig(exc, 'recombine')), f"{RECOMBINE_POOL[case['a']]!r} + {case['take']} of {RECOMBINE_POOL[case['b']]!r}: {exc!r}"))
            break
        if outcome == 'rejected':
            for p in location_problems(exc, ''):
                fails.append(('recombine:location', f'{case!r}: {p}'))
    sh.count(f'recombine:{outcome}')
    sh.record(jsonio.case_hash(case), case['a'] != case['b'], {'base': RECOMBINE_POOL[case['a']], 'take': case['take'], 'from': RECOMBINE_POOL[case['b']], 'outcome': outcome}
              if case['a'] != case['b'] and len(sh.samples) < 8 else None)
    return fails


def prop_reparam(sh, case):
    """Parameters are validated on every compilation of a parsed statement, not only the first."""
    fails = []
    conn = connection()
    sequences = [
        ('SELECT i + %s FROM #m WHERE j = %s', [[1, 2], [1], [1, 2, 3], [], [5, 6]]),
        ('SELECT i FROM #m WHERE i = %s', [[1], [], [1, 2], [3]]),
        ('SELECT i FROM #m WHERE i = %(a)s AND j = %(b)s', [{'a': 1, 'b': 2}, {'a': 1}, {}, {'a': 1, 'b': 2, 'c': 3}]),
        ('SELECT i FROM #m WHERE i IN (SELECT w FROM #u WHERE uid > %s) AND j < %s', [[1, 2], [1], [1, 2]]),
    ]
    for text, plist in sequences:
        stmt = conn.parse(text)
        nph = text.count('%s')
        names = {'a', 'b'} if '%(a)s' in text else None
        for n, params in enumerate(plist):
            ok = (len(params) == nph) if names is None else names <= set(params)
            try:
                beanquery.compiler.compile(conn, stmt, params)
                outcome = 'accepted'
            except beanquery.ProgrammingError:
                outcome = 'rejected'
            except Exception as exc:  # noqa: BLE001
                fails.append((exc_sig(exc, 'reparam'), f'{text!r} compilation #{n + 1} with {params!r}: {exc!r}'))
                continue
            if (outcome == 'accepted') != ok:
                fails.append((f'reparam:{outcome}', f'{text!r} compilation #{n + 1} with {params!r}'))
            sh.record(f'reparam|{text}|{n}', n > 0, {'text': text, 'params': repr(params), 'outcome': outcome} if n == 1 else None)
    return fails


PARTS = {'rules': prop_rules, 'valid': prop_valid, 'noise': prop_noise, 'reparam': prop_reparam, 'recombine': prop_recombine}


def run(sh):
    case = {'slice': [sh.index, sh.n]}
    for sig, detail in prop_rules(sh, case):
        sh.fail(sig, detail, case, 'rules')
    if sh.index == 0:
        for sig, detail in prop_reparam(sh, None):
            sh.fail(sig, detail, None, 'reparam')
    sh.search('valid', valid_case(), prop_valid, quick=4000, thorough=100000)
    sh.search('noise', noise_case(), prop_noise, quick=2400, thorough=80000)
    sh.search('recombine', recombine_cases(), prop_recombine, quick=1600, thorough=40000)
