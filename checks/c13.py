"""C13 - OPEN / CLOSE / CLEAR present the ledger as a period report preserving balances.

Generated ledgers (lots at cost, sales, conversions, liabilities) x every subset of the three
clauses (CLOSE with and without a date) x dates before / inside / after the span and on entry
dates x optional FROM filter.  Invariants (no re-implementation of Beancount's summarize):
 window   : postings of original transactions in the result are exactly the original postings
            with d <= date < e, in order and unchanged;
 balances : each Assets / Liabilities account's Inventory total over the returned rows equals the
            direct sum of its original postings dated < e (lots preserved); Income / Expenses totals
            equal the activity in [d, e) without CLEAR and are empty with CLEAR; the difference sits
            on Equity accounts; every returned transaction balances;
 filter   : the result with a FROM filter equals the filter applied to the result without it;
 forms    : BALANCES / JOURNAL / PRINT over the same clauses agree with the SELECT;
 order    : CLOSE before OPEN is rejected at compile time, equal dates and dateless CLOSE are accepted."""
import collections
import datetime
import io

from hypothesis import strategies as st

import beanquery
from beancount.core import account_types, convert, data, interpolate, inventory
from beancount.parser import options as boptions
from beancount.parser import parser as bparser

from checks.c12 import FROM_PREDICATES, pred_ir, pred_py
from vlib import bql, harness, jsonio, ledgergen, ledgers
from vlib.runner import exc_sig

ID = 'C13'
RULE = ('ledger (2..12 transactions, 4 currencies, lots, sales, conversions; no pad) + clause set (open date, close '
        'date | dateless | none, clear) + optional FROM filter. Dates are drawn from {before the span, after it, every '
        'entry date -1/0/+1}. Non-trivial = OPEN and dated CLOSE both strictly inside the span with at least one original '
        'transaction before, inside and after the window, a lot held at the OPEN date, and >= 2 currencies. Distinct by '
        'hash of (ledger text, clauses, filter).')
ASSUMPTIONS = ['Beancount 3.2.3 summarize.open_opt/close_opt/clear_opt are what the clauses delegate to; the invariants are '
               'stated on the observable rows only',
               'original transactions are recognised by their unique narration']


@st.composite
def clause_case(draw):
    desc = draw(ledgergen.ledgers(max_txns=12, with_pad=False, min_txns=2))
    dates = sorted({d['date'] for d in desc['directives'] if d['kind'] == 'txn'})
    pool = [dates[0] - datetime.timedelta(days=10), dates[-1] + datetime.timedelta(days=10)]
    for d in dates:
        pool += [d - datetime.timedelta(days=1), d, d + datetime.timedelta(days=1)]
    pick = st.sampled_from(sorted(set(pool)))
    if len(dates) >= 3 and draw(st.integers(0, 2)) > 0:
        # both dates inside the span, with transactions before, inside and after the window
        i = draw(st.integers(1, len(dates) - 2))
        j = draw(st.integers(i + 1, len(dates) - 1))
        open_, close = dates[i], dates[j]
        if draw(st.integers(0, 3)) == 0:
            close = True
    else:
        open_ = draw(st.none() | pick)
        close = draw(st.none() | st.just(True) | pick | pick)
    clear = draw(st.booleans())
    if open_ and isinstance(close, datetime.date) and close < open_:
        open_, close = close, open_
    if open_ is None and close is None and not clear:
        clear = True
    return {'text': ledgergen.render(desc), 'open': open_, 'close': close, 'clear': clear,
            'filter': draw(st.none() | st.none() | FROM_PREDICATES), 'forms': draw(st.integers(0, 2)) == 0,
            'warm': draw(st.lists(st.sampled_from(['plain', 'toggle-clear', 'no-open', 'entries']), max_size=2)),
            'nested': draw(st.none() | st.none() | st.fixed_dictionaries({
                'open': st.none() | pick, 'close': st.none() | st.just(True) | pick, 'clear': st.booleans(),
                'filter': st.none() | FROM_PREDICATES}).filter(
                    lambda n: not (n['open'] and isinstance(n['close'], datetime.date) and n['close'] < n['open'])
                    and (n['open'] or n['close'] or n['clear'] or n['filter'])))}


def clause_text(case, with_filter=False):
    parts = []
    if with_filter and case['filter'] is not None:
        parts.append(bql.expr(pred_ir(case['filter'])))
    if case['open']:
        parts.append(f"OPEN ON {case['open'].isoformat()}")
    if case['close'] is True:
        parts.append('CLOSE')
    elif case['close']:
        parts.append(f"CLOSE ON {case['close'].isoformat()}")
    if case['clear']:
        parts.append('CLEAR')
    return ' '.join(parts)


def from_ast(case, with_filter=False):
    from beanquery.parser import ast as A
    e = None
    if with_filter and case['filter'] is not None:
        e = bql.to_ast(bql.select([(pred_ir(case['filter']), 'x')])).targets[0].expression
    return A.From(e, case['open'], case['close'], True if case['clear'] else None)


def select_ast(case, with_filter=False):
    from beanquery.parser import ast as A
    targets = [A.Target(A.Column(c.strip()), None) for c in COLS.split(',')]
    return A.Select(targets, from_ast(case, with_filter), None, None, None, None, None, None)


def invsum(positions):
    inv = inventory.Inventory()
    for p in positions:
        inv.add_position(p)
    return inv


COLS = 'date, flag, payee, narration, account, position, price, entry, weight'


def prop_clauses(sh, case):
    fails = []
    entries, errors, options = ledgers.load(case['text'])
    if errors:
        # a ledger the generator got wrong is discarded and counted, never reported
        sh.count('discarded_ledger_with_load_errors')
        sh.record(None, False)
        return []
    conn = ledgers.connect_entries(entries, options)
    clause = clause_text(case)
    d, e = case['open'], case['close'] if isinstance(case['close'], datetime.date) else None
    # statements executed earlier on the same connection must not influence the result
    for w in case.get('warm', ()):
        if w == 'plain':
            harness.engine(conn, select_ast(dict(case, open=None, close=None, clear=False, filter=('flag=', '*')), True))
        elif w == 'toggle-clear':
            harness.engine(conn, select_ast(dict(case, clear=not case['clear'])))
        elif w == 'no-open':
            harness.engine(conn, select_ast(dict(case, open=None, clear=True)))
        else:
            harness.engine(conn, 'SELECT id FROM #entries')
    r = harness.engine(conn, select_ast(case))
    if r[0] != 'ok':
        return [(exc_sig(r[1], 'select:raises'), f'FROM {clause}: {r[1]!r}')]
    rows = r[2]
    atypes = boptions.get_account_types(options)
    originals = [(en, p) for en in entries if isinstance(en, data.Transaction) for p in en.postings]
    narrations = {en.narration for en, _ in originals}

    # window
    want = [(en.date, en.flag, en.payee, en.narration, p.account, (p.units, p.cost), p.price) for en, p in originals
            if (d is None or en.date >= d) and (e is None or en.date < e)]
    got = [(x[0], x[1], x[2], x[3], x[4], (x[5].units, x[5].cost), x[6]) for x in rows if x[3] in narrations and x[1] in '*!']
    if got != want:
        fails.append(('window', f'FROM {clause}: original postings returned {got[:4]!r}... expected {want[:4]!r}...'))
    # balances
    totals = collections.defaultdict(inventory.Inventory)
    for x in rows:
        totals[x[4]].add_position(x[5])
    per_account = dict(totals)          # accounts that actually occur in the result
    accounts = {p.account for _, p in originals} | set(totals)
    for a in sorted(accounts):
        before_e = invsum(p for en, p in originals if p.account == a and (e is None or en.date < e))
        in_period = invsum(p for en, p in originals if p.account == a and (e is None or en.date < e) and (d is None or en.date >= d))
        if account_types.is_equity_account(a, atypes):
            continue
        if account_types.is_balance_sheet_account(a, atypes):
            if totals[a] != before_e:
                fails.append(('balance-sheet-total', f'FROM {clause}: {a} totals {totals[a]} but its balance as of the end is {before_e}'))
        else:
            expect = inventory.Inventory() if case['clear'] else in_period
            if totals[a] != expect:
                fails.append(('income-statement-total', f'FROM {clause}: {a} totals {totals[a]}, expected {expect}'))
    # every returned transaction balances; the whole result balances
    txns = {}
    for x in rows:
        txns[id(x[7])] = x[7]
    for t in txns.values():
        residual = interpolate.compute_residual(t.postings)
        if not residual.is_small(interpolate.infer_tolerances(t.postings, options)):
            fails.append(('unbalanced-transaction', f'FROM {clause}: {t.date} {t.narration!r} residual {residual}'))
    # ... also when seen through the columns: `weight` is the balancing weight of the row's posting (the postings the
    # clauses synthesize included, e.g. conversions booked at price zero), and the weights of a transaction cancel
    from beancount.core import convert as bconvert
    k = 0
    prev = None
    wsum = {}
    for x in rows:
        k = k + 1 if x[7] is prev else 0
        prev = x[7]
        if k < len(x[7].postings):
            w = bconvert.get_weight(x[7].postings[k])
            if x[8] != w:
                fails.append(('weight-column', f'FROM {clause}: {x[0]} {x[4]} {x[5]} @ {x[6]}: weight column {x[8]!r}, balancing weight {w!r}'))
                break
        wsum.setdefault(id(x[7]), inventory.Inventory()).add_amount(x[8])
    for t in txns.values():
        if id(t) in wsum and not wsum[id(t)].is_small(interpolate.infer_tolerances(t.postings, options)):
            fails.append(('weights-do-not-cancel', f'FROM {clause}: {t.date} {t.narration!r} sum of weight {wsum[id(t)]}'))
    # with CLOSE the conversions entry makes the whole result net to zero at cost (the difference sits on Equity)
    if case['close'] is not None:
        total = inventory.Inventory()
        for x in rows:
            total.add_amount(convert.get_cost(x[5]))
        if not total.is_small(interpolate.infer_tolerances([p for t in txns.values() for p in t.postings], options)) \
                and not total.is_empty():
            fails.append(('close-does-not-net-to-zero', f'FROM {clause}: all returned postings at cost sum to {total}'))
    # filter: same clauses with a FROM expression == the expression applied to the rows
    if case['filter'] is not None:
        rf = harness.engine(conn, select_ast(case, True))
        if rf[0] != 'ok':
            fails.append((exc_sig(rf[1], 'filter:raises'), f'FROM {clause_text(case, True)}: {rf[1]!r}'))
        else:
            key = lambda x: (x[0], x[1], x[2], x[3], x[4], x[5], x[6])  # noqa: E731
            want_f = [key(x) for x in rows if pred_py(case['filter'], x[7], next(p for p in x[7].postings if p.account == x[4]))]
            if [key(x) for x in rf[2]] != want_f:
                fails.append(('filter-order', f'FROM {clause_text(case, True)}: {len(rf[2])} rows, filtering the unfiltered result gives {len(want_f)}'))
    # a sub-select with its own FROM clauses inside this statement: each FROM clause stands on its own
    if case.get('nested') is not None:
        from beanquery.parser import ast as A
        inner_case = dict(case, **case['nested'])
        inner = A.Select([A.Target(A.Column('account'), None)], from_ast(inner_case, True), None, None, None, None, None, None)
        ri = harness.engine(conn, inner)
        if ri[0] == 'ok':
            accounts = sorted({a for (a,) in ri[2]})
            outer_nested = select_ast(case)
            outer_nested.where_clause = A.In(A.Column('account'), inner)
            outer_literal = select_ast(case)
            outer_literal.where_clause = A.In(A.Column('account'), A.Constant(accounts))
            rn, rl = harness.engine(conn, outer_nested), harness.engine(conn, outer_literal)
            key = lambda x: (x[0], x[1], x[2], x[3], x[4], x[5], x[6])  # noqa: E731
            if rn[0] != 'ok' or rl[0] != 'ok':
                bad = rn if rn[0] != 'ok' else rl
                fails.append((exc_sig(bad[1], 'nested:raises'), f'FROM {clause} WHERE account IN (SELECT account FROM {clause_text(inner_case, True)}): {bad[1]!r}'))
            elif [key(x) for x in rn[2]] != [key(x) for x in rl[2]]:
                fails.append(('nested-from-clauses', f'FROM {clause} WHERE account IN (SELECT account FROM {clause_text(inner_case, True)}): '
                              f'{len(rn[2])} rows, with the sub-select evaluated on its own {len(rl[2])} ({accounts})'))
            sh.count('nested_subselect')
    # other statement forms over the same clauses (on a third of the cases: they re-parse templates)
    if not case.get('forms', True):
        return finish(sh, case, fails, originals, rows, d, e)
    from beanquery.parser import ast as A
    rb = harness.engine(conn, A.Balances(None, from_ast(case), None))
    if rb[0] != 'ok':
        fails.append((exc_sig(rb[1], 'balances:raises'), f'BALANCES FROM {clause}: {rb[1]!r}'))
    else:
        got_b = {a: inv for a, inv in rb[2]}
        want_b = per_account
        if got_b != want_b or len(rb[2]) != len(want_b):
            fails.append(('balances-form', f'BALANCES FROM {clause}: {got_b!r} vs SELECT totals {want_b!r}'))
    rj = harness.engine(conn, A.Journal(None, None, from_ast(case)))
    if rj[0] != 'ok':
        fails.append((exc_sig(rj[1], 'journal:raises'), f'JOURNAL FROM {clause}: {rj[1]!r}'))
    else:
        if [(x[0], x[1], x[4], x[5]) for x in rj[2]] != [(x[0], x[1], x[4], x[5]) for x in rows]:
            fails.append(('journal-form', f'JOURNAL FROM {clause} differs from the SELECT'))
    try:
        out = io.StringIO()
        from beanquery import query_execute
        query_execute.execute_print(conn.compile(A.Print(from_ast(case))), out)
        printed, perr, _ = bparser.parse_string(out.getvalue())
        got_p = [(t.date, t.flag, t.narration) for t in printed if isinstance(t, data.Transaction)]
        want_p = [(t.date, t.flag, t.narration) for t in txns.values()]
        if sorted(got_p) != sorted(want_p) or perr:
            fails.append(('print-form', f'PRINT FROM {clause}: {got_p[:3]!r} vs {want_p[:3]!r} {perr[:1]!r}'))
    except Exception as exc:  # noqa: BLE001
        fails.append((exc_sig(exc, 'print:raises'), f'PRINT FROM {clause}: {exc!r}'))

    return finish(sh, case, fails, originals, rows, d, e)


def finish(sh, case, fails, originals, rows, d, e):
    dates = sorted({en.date for en, _ in originals})
    lots_at_open = d is not None and any(p.cost is not None and p.units.number > 0 and en.date < d for en, p in originals)
    nontrivial = (d is not None and e is not None and any(x < d for x in dates) and any(d <= x < e for x in dates)
                  and any(x >= e for x in dates) and lots_at_open and len({p.units.currency for _, p in originals}) >= 2)
    sh.count('clauses:' + '+'.join(k for k, v in (('open', d), ('close', case['close']), ('clear', case['clear'])) if v))
    if case['close'] is True:
        sh.count('dateless_close')
    if case['filter'] is not None:
        sh.count('with_filter')
    if case.get('forms', True):
        sh.count('with_balances_journal_print')
    sh.record(jsonio.case_hash(case), nontrivial, {'clause': clause_text(case, True), 'rows': len(rows)} if nontrivial else None,
              n=5 if case.get('forms', True) else 2)
    return fails


def prop_order(sh, case):
    """CLOSE before OPEN is rejected; equal dates and a dateless CLOSE are accepted (all four statement forms)."""
    fails = []
    conn = ledgers.connect(ledgers.SAMPLE)
    d1, d2 = '2019-01-10', '2019-02-05'
    forms = ['SELECT account FROM {}', 'BALANCES FROM {}', 'JOURNAL FROM {}', 'PRINT FROM {}', 'JOURNAL "Bank" AT cost FROM {}',
             'BALANCES AT units FROM {} WHERE account ~ "A"']
    for form in forms:
        for clause, ok in ((f'OPEN ON {d2} CLOSE ON {d1}', False), (f'OPEN ON {d2} CLOSE ON {d1} CLEAR', False),
                           (f'year = 2019 OPEN ON {d2} CLOSE ON {d1}', False), (f'month = 1 OPEN ON {d2} CLOSE ON {d1} CLEAR', False),
                           (f'OPEN ON {d1} CLOSE ON {d1}', True), (f'OPEN ON {d1} CLOSE', True), (f'OPEN ON {d2} CLOSE CLEAR', True),
                           (f'flag = "*" OPEN ON {d1} CLOSE ON {d2}', True), ('CLOSE', True), ('CLOSE CLEAR', True)):
            text = form.format(clause)
            try:
                conn.compile(conn.parse(text))
                outcome = 'accepted'
            except beanquery.CompilationError:
                outcome = 'rejected'
            except Exception as exc:  # noqa: BLE001
                fails.append((exc_sig(exc, 'order'), f'{text!r}: {exc!r}'))
                continue
            if (outcome == 'accepted') != ok:
                fails.append((f'order:{outcome}', text))
            sh.record(text, True, {'text': text, 'outcome': outcome})
    return fails


PARTS = {'clauses': prop_clauses, 'order': prop_order}


def run(sh):
    if sh.index == 0:
        for sig, detail in prop_order(sh, None):
            sh.fail(sig, detail, None, 'order')
    sh.search('clauses', clause_case(), prop_clauses, quick=3000, thorough=100000)
