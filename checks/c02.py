"""C02 - aggregation: groups partition rows, aggregates fold each group, HAVING filters.

matrix  : every aggregate x admissible argument type over a fixed table with three interleaved
          groups (one keyed NULL) and NULL-rich argument pools; key given by expression, output
          name, position, hidden expression and implicitly.
random  : generated aggregate SELECTs (keys visible/hidden, by expression/name/position/implicit,
          aggregates with arithmetic on top, WHERE, HAVING) vs the reference model.
additive: metamorphic, engine results only: per-group count(*)/count(x)/sum(x) add up to the
          ungrouped totals, a second key refines the first, empty selection gives no row."""
import datetime
from decimal import Decimal as D

from hypothesis import strategies as st

from vlib import bql, gen, harness, jsonio, refmodel

ID = 'C02'
RULE = ('random: table (NULL-rich, duplicate-rich pools of <= 5 values per column, 0..8 rows) + aggregate SELECT with '
        '0..3 grouping keys (visible or hidden; by expression, output name, position or implicit), 1..3 aggregate '
        'targets (count(*), count, sum, min, max, first, last; optional arithmetic/comparison/coalesce on top), optional '
        'WHERE and HAVING; compared with the reference model in order of first appearance. Non-trivial = >= 2 groups, '
        'some group with >= 2 rows that are not adjacent in source order, and a NULL in a key or in an aggregated '
        'argument. matrix: aggregate x argument type x key form over a fixed interleaved table. additive: sums of '
        'per-group results equal ungrouped results. Distinct by hash of (text, table).')
ASSUMPTIONS = ['grouping keys are typed hashable scalars (int, decimal, str, date, bool); untyped object columns are '
               'only aggregated, not grouped on',
               'which of several equal representatives (1.0 vs 1.00) a key or min/max keeps is not asserted']

POOLS = {
    'int': [None, 3, -1, None, 0, 3, 7, 2, None, None],
    'decimal': [None, D('1.5'), D('-2'), None, D('0'), D('1.50'), D('7'), D('0.25'), None, None],
    'str': [None, 'b', '', None, 'a', 'B', 'ab', 'a', None, None],
    'date': [None, datetime.date(2020, 2, 29), datetime.date(2019, 12, 31), None, datetime.date(2020, 3, 1),
             datetime.date(2020, 2, 29), datetime.date(2020, 1, 1), datetime.date(2020, 1, 2), None, None],
    'bool': [None, True, False, None, False, True, True, False, None, None],
    'object': [None, 1, 'x', None, D('2.5'), datetime.date(2020, 1, 1), True, '', None, None],
}
# interleaved, NULL is an ordinary group; group 'a' starts with NULLs, group 'b' ends with one, group 'c' holds only one
KEYS = ['a', None, 'b', 'a', None, 'b', 'a', 'b', 'c', 'b']
AGGS = {'count': gen.ALLTYPES, 'sum': ['int', 'decimal'], 'min': gen.KEYTYPES, 'max': gen.KEYTYPES,
        'first': gen.ALLTYPES, 'last': gen.ALLTYPES}


def matrix_cases():
    out = []
    for t, pool in POOLS.items():
        table = {'name': 'm', 'cols': [('rid', 'int'), ('k', 'str'), ('x', t)],
                 'rows': [(i, KEYS[i], pool[i]) for i in range(len(KEYS))]}
        K, X = ['col', 'k'], ['col', 'x']
        for fn, types in AGGS.items():
            if t not in types:
                continue
            a = ['fn', fn, [X]]
            star = ['fn', 'count', [['star']]]
            forms = [
                bql.select([(K, None), (a, 'v'), (star, 'n')], ('table', 'm')),                             # implicit
                bql.select([(K, None), (a, 'v')], ('table', 'm'), group_by=[K]),                           # by name/expr
                bql.select([(a, 'v'), (K, 'kk')], ('table', 'm'), group_by=[2]),                           # by position
                bql.select([(a, 'v'), (K, 'kk')], ('table', 'm'), group_by=[['col', 'kk']]),               # by alias
                bql.select([(a, 'v'), (K, 'rid')], ('table', 'm'), group_by=[['col', 'rid']]),             # alias = another column's name
                bql.select([(a, 'v')], ('table', 'm'), group_by=[K]),                                      # hidden key
                bql.select([(a, 'v'), (star, 'n')], ('table', 'm')),                                      # no key
                bql.select([(a, 'v')], ('table', 'm'), group_by=[['fn', 'upper', [K]], ['isnull', X]]),    # hidden exprs
                bql.select([(K, None), (a, 'v')], ('table', 'm'), group_by=[K],
                           having=['gt', star, ['const', 'int', 1]]),
                bql.select([(K, None), (a, 'v')], ('table', 'm'), where=['isnotnull', K], group_by=[K]),
                bql.select([(K, None), (a, 'v')], ('table', 'm'), where=['const', 'bool', False], group_by=[K]),
                bql.select([(a, 'v')], ('table', 'm'), where=['const', 'bool', False]),
                # LIMIT cuts the groups, never the rows folded into them (the groups interleave in the table)
                bql.select([(K, None), (a, 'v'), (star, 'n')], ('table', 'm'), group_by=[K], limit=1),
                bql.select([(K, None), (a, 'v'), (star, 'n')], ('table', 'm'), limit=2),
                bql.select([(a, 'v'), (star, 'n')], ('table', 'm'), group_by=[K], limit=2),
                bql.select([(a, 'v'), (star, 'n')], ('table', 'm'), group_by=[K], limit=3, distinct=True),
            ]
            for sel in forms:
                out.append({'tables': [table], 'sel': sel, 'text': bql.statement(sel), 'matrix': True})
        # grouping without any aggregate: one row per group, whether or not the keys are selected
        R = ['col', 'rid']
        forms = [
            bql.select([(K, None)], ('table', 'm'), group_by=[K]),
            bql.select([(K, None)], ('table', 'm'), group_by=[K, ['isnull', X]]),
            bql.select([(K, None)], ('table', 'm'), group_by=[['isnull', X], 1]),
            bql.select([(['isnull', X], 'n')], ('table', 'm'), group_by=[['col', 'n'], K]),
            bql.select([(K, None), (['isnull', X], 'n')], ('table', 'm'), group_by=[1, 2, ['mod', R, ['const', 'int', 2]]]),
            bql.select([(['fn', 'upper', [K]], 'u')], ('table', 'm'), group_by=[['col', 'u'], ['mod', R, ['const', 'int', 3]]]),
            bql.select([(K, None)], ('table', 'm'), group_by=[K, R], having=None),
            bql.select([(K, None)], ('table', 'm'), where=['isnotnull', X], group_by=[K, ['mod', R, ['const', 'int', 2]]]),
        ]
        if t in gen.KEYTYPES:
            forms += [bql.select([(K, None)], ('table', 'm'), group_by=[K, X]),
                      bql.select([(X, None)], ('table', 'm'), group_by=[X, K]),
                      bql.select([(X, 'k')], ('table', 'm'), group_by=[['col', 'k'], ['mod', R, ['const', 'int', 2]]])]
        for sel in forms:
            out.append({'tables': [table], 'sel': sel, 'text': bql.statement(sel), 'matrix': True})
    return out


@st.composite
def random_case(draw):
    table = draw(gen.tables(max_cols=5, max_rows=8, null_p=0.3))
    sel = draw(gen.agg_selects(table, order=False, distinct=False, limit=False))
    sel['limit'] = None
    if draw(st.integers(0, 3)) > 0:
        # executed from the AST (Connection.execute accepts parsed statements): skips the slow parser
        sel = harness.force_aliases(sel)
        return {'tables': [table], 'sel': sel, 'text': bql.statement(sel), 'via_ast': True}
    style = draw(gen.styles(parens=0.05, space=True))
    return {'tables': [table], 'sel': sel, 'text': bql.statement(sel, style)}


def group_shape(case):
    """(number of groups, some group has non-adjacent rows, NULL in key or aggregate argument)."""
    sel = case['sel']
    tl = sel['targets']
    names = [a if a is not None else (e[1] if e[0] == 'col' else None) for e, a in tl]
    if sel.get('group_by') is not None:
        keys = []
        for k in sel['group_by']:
            if isinstance(k, int):
                keys.append(tl[k - 1][0])
            elif k[0] == 'col' and k[1] in names:
                keys.append(tl[len(names) - 1 - names[::-1].index(k[1])][0])
            else:
                keys.append(k)
    else:
        keys = [e for e, _ in tl if not bql.is_aggregate(e)]
    args = [a[2][0] for e, _ in tl for a in refmodel.aggregate_nodes(e) if a[2] and a[2][0][0] != 'star']
    probe = bql.select([(k, None) for k in keys] + [(a, None) for a in args] + [(['col', 'rid'], None)],
                       sel['from'], sel['where'])
    r = harness.model(probe, case['tables'])
    if r[0] != 'ok':
        return 0, False, False
    rows = r[3]
    nk = len(keys)
    groups = {}
    for i, row in enumerate(rows):
        groups.setdefault(row[:nk], []).append(i)
    nonadj = any(len(ix) >= 2 and ix[-1] - ix[0] >= len(ix) for ix in groups.values())
    has_null = any(v is None for row in rows for v in row[:-1])
    return len(groups), nonadj, has_null


def prop_select(sh, case):
    fails, info = harness.compare_select(case)
    part = 'matrix' if case.get('matrix') else 'random'
    if 'undef' in info:
        sh.count('oracle_undefined')
        sh.record(None, False)
        return fails
    ngroups, nonadj, has_null = group_shape(case)
    nontrivial = ngroups >= 2 and nonadj and has_null
    sel = case['sel']
    if part == 'random':
        sh.count('groupby:' + ('none' if sel['group_by'] is None else
                               '+'.join(sorted({'pos' if isinstance(k, int) else ('name' if k[0] == 'col' else 'expr')
                                                for k in sel['group_by']}))))
        for e, _ in sel['targets']:
            for a in refmodel.aggregate_nodes(e):
                sh.count('agg:' + a[1])
        if sel['having'] is not None:
            sh.count('having')
        sh.count(f'groups:{min(ngroups, 4)}')
    else:
        sh.count('matrix_queries')
    sh.record(jsonio.case_hash([case['text'], case['tables']]), nontrivial,
              {'text': case['text'], 'groups': ngroups, 'result': repr(info.get('want'))[:300]} if nontrivial else None)
    return [(f'{part}:{s}', d) for s, d in fails]


# ------------------------------------------------------------------ additivity (metamorphic)

@st.composite
def additive_case(draw):
    table = draw(gen.tables(max_cols=5, max_rows=8, null_p=0.3, min_rows=0))
    cols = table['cols']
    k1, _ = draw(gen.key_exprs(cols))
    k2, _ = draw(gen.key_exprs(cols))
    # x is built from exact operations only (no division): decimal sums are then associative
    numeric = [['col', n] for n, ty in cols if ty in ('int', 'decimal')]
    x = draw(st.sampled_from(numeric))
    form = draw(st.sampled_from(['col', 'col', 'plus', 'times', 'neg', 'coalesce']))
    if form == 'plus':
        x = ['add', x, draw(gen.literal('int'))]
    elif form == 'times':
        x = ['mul', x, draw(gen.literal(draw(st.sampled_from(['int', 'decimal']))))]
    elif form == 'neg':
        x = ['neg', x]
    elif form == 'coalesce' and x[1] != 'rid':
        x = ['fn', 'coalesce', [x, x]]
    y = draw(gen.exprs(draw(st.sampled_from(gen.ALLTYPES)), cols, 1))
    where = draw(st.none() | gen.exprs('bool', cols, 2))
    return {'tables': [table], 'k1': k1, 'k2': k2, 'x': x, 'y': y, 'where': where}


def prop_additive(sh, case):
    fails = []
    k1, k2, x, y, w = case['k1'], case['k2'], case['x'], case['y'], case['where']
    aggs = [(['fn', 'count', [['star']]], 'n'), (['fn', 'count', [y]], 'cy'), (['fn', 'count', [x]], 'cx'),
            (['fn', 'sum', [x]], 'sx')]
    frm = ('table', case['tables'][0]['name'])
    q_total = bql.statement(bql.select(aggs, frm, w))
    q_one = bql.statement(bql.select([(k1, 'k1')] + aggs, frm, w, group_by=[1]))
    q_two = bql.statement(bql.select([(k1, 'k1'), (k2, 'k2')] + aggs, frm, w, group_by=[1, 2]))
    q_rows = bql.statement(bql.select([(['col', 'rid'], None)], frm, w))
    conn, _ = harness.connect(case['tables'])
    res = {}
    asts = {'total': bql.select(aggs, frm, w), 'one': bql.select([(k1, 'k1')] + aggs, frm, w, group_by=[1]),
            'two': bql.select([(k1, 'k1'), (k2, 'k2')] + aggs, frm, w, group_by=[1, 2]),
            'rows': bql.select([(['col', 'rid'], None)], frm, w)}
    for name, q in (('total', q_total), ('one', q_one), ('two', q_two), ('rows', q_rows)):
        r = harness.engine(conn, bql.to_ast(asts[name]))
        if r[0] != 'ok':
            if isinstance(r[1], (OverflowError, ArithmeticError)):
                sh.count('oracle_undefined')
                sh.record(None, False)
                return []
            fails.append((harness.exc_sig(r[1], 'additive:raises'), f'{q!r}: {r[1]!r}'))
            return fails
        res[name] = r[2]
    nsel = len(res['rows'])
    if nsel == 0:
        for name in ('total', 'one', 'two'):
            if res[name]:
                fails.append(('additive:row-for-empty-selection', f'{name}: {res[name]!r}'))
    else:
        if len(res['total']) != 1:
            fails.append(('additive:total-not-one-row', repr(res['total'])))
            return fails
        total = res['total'][0]
        if total[0] != nsel:
            fails.append(('additive:count-star', f'count(*)={total[0]} selected rows={nsel}'))

        def add(rows, off):
            acc = [0, 0, 0, 0]
            for r in rows:
                for i in range(4):
                    acc[i] += r[off + i]
            return tuple(acc)
        if add(res['one'], 1) != tuple(total):
            fails.append(('additive:one-key', f'{q_one!r}: groups add to {add(res["one"], 1)}, total {tuple(total)}'))
        if add(res['two'], 2) != tuple(total):
            fails.append(('additive:two-keys', f'{q_two!r}: groups add to {add(res["two"], 2)}, total {tuple(total)}'))
        # refinement: grouping by (k1, k2) then summing over k2 gives grouping by k1, in order of first appearance
        merged = {}
        for r in res['two']:
            acc = merged.setdefault(r[0], [0, 0, 0, 0])
            for i in range(4):
                acc[i] += r[2 + i]
        one = {r[0]: list(r[1:]) for r in res['one']}
        if list(merged) != [r[0] for r in res['one']] or merged != one:
            fails.append(('additive:refinement', f'{q_two!r} merged {merged!r} vs {q_one!r} {one!r}'))
        if len({r[0] for r in res['one']}) != len(res['one']) or len({r[:2] for r in res['two']}) != len(res['two']):
            fails.append(('additive:duplicate-group', repr(res['one'])))
    nontrivial = len(res['one']) >= 2 and len(res['two']) > len(res['one'])
    sh.record(jsonio.case_hash(case), nontrivial, {'one': q_one, 'result': repr(res['one'])[:200]} if nontrivial else None)
    return fails



# ------------------------------------------------------------------ the same on Beancount-backed tables

_SCHEMA = {}


def ledger_schema():
    if not _SCHEMA:
        from vlib import ledgermodel, ledgers
        conn = ledgers.connect(ledgers.SAMPLE)
        entries, _, _ = ledgers.load(ledgers.SAMPLE)
        for name, t in ledgermodel.model_tables(conn, entries).items():
            _SCHEMA[name] = t['cols']
    return _SCHEMA


@st.composite
def ledger_case(draw):
    from vlib import ledgergen
    desc = draw(ledgergen.ledgers(max_txns=6, many_extras=True))
    schema = ledger_schema()
    name = draw(st.sampled_from(['postings', 'entries', 'transactions', 'transactions', 'prices', 'notes', 'notes', 'events', 'events', 'documents', 'documents']))
    pseudo = {'name': name, 'cols': schema[name]}
    if draw(st.booleans()):
        sel = draw(gen.agg_selects(pseudo, order=False))
    else:
        sel = draw(gen.plain_selects(pseudo, order=False))
    if not False:
        sel['limit'] = None
    return {'text': ledgergen.render(desc), 'table': name, 'sel': harness.force_aliases(sel), 'via_ast': True}


def inventory_sums(conn, entries):
    """sum() over amount- and position-typed arguments folds from the empty inventory: a group whose values are all
    NULL (postings without a price) sums to the empty inventory, and the group sums add up to the total."""
    from beancount.core import data, inventory, position
    fails = []
    want, order = {}, []
    for e in entries:
        if isinstance(e, data.Transaction):
            for p in e.postings:
                if p.account not in want:
                    want[p.account] = [inventory.Inventory(), inventory.Inventory(), 0, 0]
                    order.append(p.account)
                w = want[p.account]
                if p.price is not None:
                    w[0].add_amount(p.price)
                    w[2] += 1
                w[1].add_position(position.Position(p.units, p.cost))
                w[3] += 1
    r = harness.engine(conn, harness.parsed('SELECT account, sum(price) AS sp, sum(position) AS s, count(price) AS np, count(*) AS n '
                                            'FROM #postings GROUP BY account'))
    if r[0] != 'ok':
        return [('inventory-sums:raises', repr(r[1]))]
    expect = [(a, *want[a]) for a in order]
    if r[2] != expect:
        bad = [(g, w) for g, w in zip(r[2], expect) if g != w][:2]
        fails.append(('inventory-sums', f'sum(price)/sum(position) per account: got vs want {bad!r} ({len(r[2])} vs {len(expect)} rows)'))
    t = harness.engine(conn, harness.parsed('SELECT sum(price) AS sp, sum(position) AS s FROM #postings WHERE price IS NULL'))
    if t[0] == 'ok' and t[2] and not (isinstance(t[2][0][0], inventory.Inventory) and t[2][0][0].is_empty()):
        fails.append(('inventory-sums', f'sum(price) over postings without price is {t[2][0][0]!r}, not the empty inventory'))
    return fails


def prop_ledger(sh, case):
    from vlib import ledgermodel, ledgers
    entries, errors, options = ledgers.load(case['text'])
    conn = ledgers.connect_entries(entries, options)
    tabs = ledgermodel.model_tables(conn, entries)
    c = dict(case, tables=[], text=bql.statement(case['sel']))
    fails, info = harness.compare_select(c, conn=conn, model_tabs=tabs)
    if 'undef' in info:
        sh.count('oracle_undefined')
        sh.record(None, False)
        return fails
    fails += inventory_sums(conn, entries)
    nrows = len(tabs[case['table']]['rows'])
    nontrivial = nrows >= 3 and len(info.get('want', ())) >= 2
    sh.count('ledger:' + case['table'])
    sh.record(jsonio.case_hash([case['sel'], case['table'], case['text']]), nontrivial,
              {'text': c['text'], 'table_rows': nrows, 'result': repr(info.get('want'))[:200]} if nontrivial else None)
    return [(f'ledger:{s}', d) for s, d in fails]


PARTS = {'ledger': prop_ledger, 'matrix': prop_select, 'random': prop_select, 'additive': prop_additive}


def run(sh):
    for case in sh.mine(matrix_cases()):
        for sig, detail in prop_select(sh, case):
            sh.fail(sig, detail, case, 'matrix')
    sh.search('random', random_case(), prop_select, quick=6000, thorough=150000)
    sh.search('additive', additive_case(), prop_additive, quick=2000, thorough=50000)
    sh.search('ledger', ledger_case(), prop_ledger, quick=1600, thorough=50000)
