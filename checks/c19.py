"""C19 - the shell prints what the API returns; settings behave as a typed key-value store.

history : operation sequences on one BQLShell in batch mode (.set with valid values in every accepted
          spelling, invalid values, unknown names incl. names of Settings attributes that are not
          settings, wrong arity; .set / .set NAME; statements; .run NAME / .run / unknown; .tables,
          .describe, .explain, unknown dot-commands, legacy bare commands, letter case) against a
          settings-dictionary model; statement output is recomputed independently: separate
          connection -> numberify if set -> render_text / render_csv called with explicit keyword
          arguments (or `(empty)`).
cli     : shell.main through click's CliRunner with every subset of -f, -m, -o, -q on a ledger file
          that has load errors."""
import contextlib
import io
import os
import tempfile

from hypothesis import strategies as st

import beanquery
from beanquery import numberify, query_render, shell

from vlib import jsonio, ledgers
from vlib.runner import exc_sig

ID = 'C19'
RULE = ('history: 2..14 operations over one shell attached to a ledger with four query directives; non-trivial = at least two '
        'effective setting changes followed by a statement whose output depends on them, or a .run followed by a typed '
        'statement. Distinct by hash of the operation list. cli: all 24 option subsets x 6 command-line statements (3 of them `.run NAME`) on a ledger with load errors.')
ASSUMPTIONS = ['batch (non-interactive) mode only; pager and readline are not exercised',
               'a statement that fails to parse or compile may propagate a ProgrammingError out of onecmd (the interactive '
               'loop renders it); it must leave the settings unchanged',
               'named queries are SELECT statements (the default CLOSE date is only defined for them)']

LEDGER = ledgers.SAMPLE.replace(
    '2019-02-14 query "food" "SELECT account, sum(position) WHERE account ~ \'Food\' GROUP BY 1"',
    '''2019-02-06 query "byaccount" "SELECT account, sum(position) AS s FROM year = 2019 GROUP BY account ORDER BY account"
2019-02-06 query "nofrom" "SELECT date, narration, position WHERE number > 100"
2019-02-06 query "closed" "SELECT account, sum(position) AS s FROM year = 2019 CLOSE ON 2019-01-12 GROUP BY 1 ORDER BY 1"
2019-02-07 query "with space" "SELECT count(*) AS n FROM flag = '*'"
2019-02-07 query "dateless" "SELECT account, sum(position) AS s FROM year = 2019 CLOSE GROUP BY 1 ORDER BY 1"
2019-02-08 * "Odd precision"
  Expenses:Food            7.5 USD
  Expenses:Fees            12.345 USD
  Assets:Bank:Checking   -19.845 USD''')
TYPED = {
    'byaccount': 'SELECT account, sum(position) AS s FROM year = 2019 CLOSE ON 2019-02-06 GROUP BY account ORDER BY account',
    'nofrom': 'SELECT date, narration, position WHERE number > 100',
    'closed': 'SELECT account, sum(position) AS s FROM year = 2019 CLOSE ON 2019-01-12 GROUP BY 1 ORDER BY 1',
    'with space': "SELECT count(*) AS n FROM flag = '*' CLOSE ON 2019-02-07",
    'dateless': 'SELECT account, sum(position) AS s FROM year = 2019 CLOSE GROUP BY 1 ORDER BY 1',
}
STATEMENTS = [
    'SELECT account, sum(position) AS s FROM year = 2019 GROUP BY account ORDER BY account',
    'select date, payee, narration, position, balance where account ~ "Broker"',
    'SELECT date, account, number, cost_number, tags, meta("ref") AS ref LIMIT 6',
    'SELECT account, units(sum(position)) AS u, cost(sum(position)) AS c GROUP BY 1 ORDER BY 1',
    'SELECT date, narration WHERE number > 1000000',
    'BALANCES AT cost FROM year = 2019',
    'balances',
    'JOURNAL "Checking" AT units',
    'SELECT payee, count(*) AS n, first(date) AS d, sum(number) AS total GROUP BY payee ORDER BY payee;',
    'SELECT DISTINCT currency, cost_currency ORDER BY 1, 2',
    "SELECT account, sum(position) AS s FROM flag = '*' GROUP BY account ORDER BY account",
    'SELECT account, sum(position) AS s FROM year = 2019 CLOSE GROUP BY account ORDER BY account',
    'SELECT account, sum(position) AS s FROM CLOSE CLEAR GROUP BY account ORDER BY account',
    'SELECT account, number, position, weight WHERE account ~ "Food|Fees"',
]
DEFAULTS = {'boxed': False, 'expand': False, 'format': 'text', 'narrow': True, 'nullvalue': '', 'numberify': False,
            'pager': True, 'spaced': False, 'unicode': False}
BOOLS = [n for n, v in DEFAULTS.items() if isinstance(v, bool)]
TRUE = ['1', 'true', 'True', 'TRUE', 't', 'yes', 'Y', 'on', 'ON', ' on ']
FALSE = ['0', 'false', 'False', 'F', 'no', 'n', 'off', 'OFF']
BAD_BOOL = ['maybe', '2', '', 'tru', 'yess', '-1', 'null']
NOT_SETTINGS = ['todict', 'getstr', 'setstr', '_parse_bool', '_parse_format', '__class__', '__dict__', '__doc__', 'nope', 'Boxed',
                'settings']

op = st.one_of(
    st.tuples(st.just('set'), st.sampled_from(BOOLS), st.sampled_from(TRUE + FALSE)),
    st.tuples(st.just('set'), st.sampled_from(BOOLS), st.sampled_from(TRUE + FALSE)),
    st.tuples(st.just('set'), st.sampled_from(BOOLS), st.sampled_from(BAD_BOOL)),
    st.tuples(st.just('set'), st.just('format'), st.sampled_from(['text', 'csv', 'csv', 'CSV', 'Text', 'json', '', 'tex'])),
    st.tuples(st.just('set'), st.just('nullvalue'), st.sampled_from(['NULL', '-', '', 'n/a', 'a b', '∅'])),
    st.tuples(st.just('set'), st.sampled_from(NOT_SETTINGS), st.sampled_from(['x', 'true', '1'])),
    st.tuples(st.just('setn'), st.sampled_from(BOOLS + ['format']), st.sampled_from(['a b', 'true false', 'x y z'])),
    st.tuples(st.just('show'), st.sampled_from(list(DEFAULTS) + NOT_SETTINGS), st.none()),
    st.tuples(st.just('stmt'), st.integers(0, len(STATEMENTS) - 1), st.none()),
    st.tuples(st.just('stmt'), st.integers(0, len(STATEMENTS) - 1), st.none()),
    st.tuples(st.just('run'), st.sampled_from(list(TYPED) + ['nosuch', '']), st.none()),
    st.tuples(st.just('cmd'), st.sampled_from(['.tables', '.describe postings', '.describe position', '.foo', '.select 1', '.SET boxed true',
                                                '.explain SELECT account', '.errors', '.balances', '.nope x y', 'set boxed on']), st.none()),
)
history = st.lists(op, min_size=2, max_size=14)


def quote(value):
    return "'" + value + "'" if (value == '' or ' ' in value) else value


def expected_output(text, settings):
    """What rendering the API result with these settings prints (computed without the shell)."""
    conn = ledgers.connect(LEDGER)
    # (the oracle spells the statement differently, so that it shares no per-text state with the shell's own parse)
    cursor = conn.execute('\n' + text + '\n')
    desc, rows = cursor.description, cursor.fetchall()
    dcontext = conn.options['dcontext']
    if settings['numberify']:
        desc, rows = numberify.numberify_results(desc, rows, dcontext.build())
    out = io.StringIO()
    if settings['format'] == 'text':
        if not rows:
            out.write('(empty)\n')
        else:
            query_render.render_text(desc, rows, dcontext, out, expand=settings['expand'], boxed=settings['boxed'],
                                     spaced=settings['spaced'], nullvalue=settings['nullvalue'], narrow=settings['narrow'],
                                     unicode=settings['unicode'])
    else:
        query_render.render_csv(desc, rows, dcontext, out, expand=settings['expand'], nullvalue=settings['nullvalue'])
    return out.getvalue()


def make_shell():
    out = io.StringIO()
    sh_ = shell.BQLShell(None, out)
    entries, errors, options = ledgers.load(LEDGER)
    sh_.context.attach('beancount:', entries=entries, errors=errors, options=options)
    sh_._extract_queries(entries)
    return sh_, out


def getstr(value):
    if isinstance(value, bool):
        return 'true' if value else 'false'
    return repr(value)


def prop_history(sh, case):
    fails = []
    bsh, out = make_shell()
    model = dict(DEFAULTS)
    changes = 0
    ran = False
    nontrivial = False
    parses = []
    real_parse = bsh.context.parse
    bsh.context.parse = lambda q: (parses.append(q), real_parse(q))[1]

    def invoke(line):
        out.seek(0)
        out.truncate()
        parses.clear()
        so, se = io.StringIO(), io.StringIO()
        exc = None
        with contextlib.redirect_stdout(so), contextlib.redirect_stderr(se), warnings_silenced():
            try:
                bsh.onecmd(line)
            except Exception as e:  # noqa: BLE001
                exc = e
        return out.getvalue() + so.getvalue(), se.getvalue(), exc

    def check_settings(where):
        text, err, exc = invoke('.set')
        want = ''.join(f'{k}: {getstr(v)}\n' for k, v in model.items())
        if exc is not None or text != want:
            fails.append(('settings-differ-from-model', f'after {where}: .set prints {text!r} {exc!r}, model {want!r}'))

    for o in case['ops']:
        kind, a, b = o
        if kind in ('set', 'setn'):
            line = f'.set {a} {b if kind == "setn" else quote(b)}'
            text, err, exc = invoke(line)
            valid = None
            if kind == 'set' and a in model:
                if isinstance(DEFAULTS[a], bool):
                    norm = b.strip().lower()
                    valid = True if norm in ('1', 'true', 't', 'yes', 'y', 'on') else False if norm in ('0', 'false', 'f', 'no', 'n', 'off') else None
                    new = valid
                    valid = valid is not None
                elif a == 'format':
                    valid, new = b in ('text', 'csv'), b
                else:
                    valid, new = True, b
            if exc is not None:
                fails.append((f'set:raises:{type(exc).__name__}', f'{line!r}: {exc!r}'))
            elif valid:
                if err or text:
                    fails.append(('set:valid-value-complains', f'{line!r}: {text!r} {err!r}'))
                if model[a] != new:
                    changes += 1
                model[a] = new
            else:
                if 'error:' not in err:
                    fails.append(('set:no-error-message', f'{line!r}: stdout {text!r} stderr {err!r}'))
            if parses:
                fails.append(('dot-command-reached-parser', f'{line!r}: {parses!r}'))
            check_settings(line)
        elif kind == 'show':
            text, err, exc = invoke(f'.set {a}')
            if exc is not None:
                fails.append((f'show:raises:{type(exc).__name__}', f'.set {a}: {exc!r}'))
            elif a in model:
                if text != f'{a}: {getstr(model[a])}\n' or err:
                    fails.append(('show:value', f'.set {a}: {text!r} {err!r}'))
            elif 'error:' not in err or text:
                fails.append(('show:unknown-name-no-error', f'.set {a}: stdout {text!r} stderr {err!r}'))
        elif kind == 'stmt':
            stmt = STATEMENTS[a]
            text, err, exc = invoke(stmt)
            want = expected_output(stmt.rstrip(';'), model)
            if exc is not None:
                fails.append((exc_sig(exc, 'statement:raises'), f'{stmt!r} with {model!r}: {exc!r}'))
            elif text != want:
                fails.append(('statement:output', f'{stmt!r} with {model!r}\n shell:\n{text}\n expected:\n{want}'))
            if changes >= 2 or ran:
                nontrivial = True
            check_settings(stmt)
        elif kind == 'run':
            line = f'.run {quote(a)}' if a else '.run'
            text, err, exc = invoke(line)
            if a in TYPED:
                want = expected_output(TYPED[a], model)
                if exc is not None:
                    fails.append((exc_sig(exc, 'run:raises'), f'{line!r}: {exc!r}'))
                elif text != want:
                    fails.append(('run:output', f'{line!r} with {model!r}\n shell:\n{text}\n typed {TYPED[a]!r}:\n{want}'))
                ran = True
            elif a == '':
                if sorted(text.split('\n')[:-1]) != sorted(TYPED) or exc is not None:
                    fails.append(('run:listing', f'{text!r} {exc!r}'))
            else:
                if 'error:' not in err or text or exc is not None:
                    fails.append(('run:unknown-name', f'{line!r}: {text!r} {err!r} {exc!r}'))
            check_settings(line)
        else:
            text, err, exc = invoke(a)
            known = a.split()[0].lower() in ('.tables', '.describe', '.explain', '.errors', 'set', '.set')
            if exc is not None:
                fails.append((f'command:raises:{type(exc).__name__}', f'{a!r}: {exc!r}'))
            elif not known and ('error:' not in err or text):
                fails.append(('command:unknown-no-error', f'{a!r}: stdout {text!r} stderr {err!r}'))
            if parses and not a.startswith('.explain'):
                fails.append(('dot-command-reached-parser', f'{a!r}: {parses!r}'))
            if a == '.tables' and sorted(text.split()) != sorted(n for n in bsh.context.tables if n):
                fails.append(('command:tables', text))
            if a in ('.SET boxed true', 'set boxed on'):
                # `.SET` is not a command (commands are case-sensitive); the legacy bare `set` still is
                if a == 'set boxed on':
                    if not model['boxed']:
                        changes += 1
                    model['boxed'] = True
            check_settings(a)
    sh.count(f'ops:{min(len(case["ops"]), 14)}')
    sh.record(jsonio.case_hash(case), nontrivial, {'ops': [list(o) for o in case['ops']]} if nontrivial else None)
    return fails


@contextlib.contextmanager
def warnings_silenced():
    import warnings
    saved = warnings.showwarning
    try:
        yield
    finally:
        warnings.showwarning = saved


# ------------------------------------------------------------------ command line

CLI_LEDGER = LEDGER + '''
2019-03-06 * "unbalanced on purpose"
  Expenses:Food   1.00 USD
  Assets:Nope     2.00 USD
'''
CLI_QUERIES = ['SELECT account, sum(position) AS s GROUP BY account ORDER BY account',
               'SELECT date, narration WHERE number > 1000000', 'BALANCES AT cost',
               # named queries of a ledger with load errors, with and without -q
               '.run nofrom', '.run byaccount', '.run dateless']


def prop_cli(sh, case):
    from click.testing import CliRunner
    fails = []
    tmp = tempfile.mkdtemp(prefix='c19-', dir='/dev/shm' if os.path.isdir('/dev/shm') else None)
    path = os.path.join(tmp, 'ledger.beancount')
    with open(path, 'w') as f:
        f.write(CLI_LEDGER)
    conn = beanquery.connect('beancount:' + path)
    try:
        for fmt in (None, 'text', 'csv'):
            for m in (False, True):
                for o in (False, True):
                    for q in (False, True):
                        for query in CLI_QUERIES:
                            args = []
                            if fmt:
                                args += ['-f', fmt]
                            if m:
                                args.append('-m')
                            # an explicit -f wins over whatever the output file is called
                            outpath = os.path.join(tmp, {'text': 'out.csv', 'csv': 'out.txt'}.get(fmt, 'out.dat'))
                            if o:
                                args += ['-o', outpath]
                            if q:
                                args.append('-q')
                            args += [path, query]
                            runner = CliRunner(env={'HOME': tmp})
                            result = runner.invoke(shell.main, args)
                            label = ' '.join(args[:-2] + [repr(query)])
                            if result.exit_code != 0 or result.exception:
                                fails.append(('cli:fails', f'{label}: exit {result.exit_code} {result.exception!r}'))
                                continue
                            cursor = conn.execute(TYPED[query[5:]] if query.startswith('.run ') else query)
                            desc, rows = cursor.description, cursor.fetchall()
                            dcontext = conn.options['dcontext']
                            if m:
                                desc, rows = numberify.numberify_results(desc, rows, dcontext.build())
                            want = io.StringIO()
                            if (fmt or 'text') == 'text':
                                if rows:
                                    query_render.render_text(desc, rows, dcontext, want)
                                else:
                                    want.write('(empty)\n')
                            else:
                                query_render.render_csv(desc, rows, dcontext, want)
                            stdout = result.stdout
                            produced = stdout
                            if o:
                                if not os.path.exists(outpath):
                                    fails.append(('cli:-o-writes-no-file', f'{label}: stdout {stdout[:200]!r} stderr {result.stderr[:200]!r}'))
                                    continue
                                with open(outpath) as f:
                                    produced = f.read()
                                os.unlink(outpath)
                                if stdout.strip():
                                    fails.append(('cli:-o-still-prints', f'{label}: stdout {stdout[:200]!r}'))
                            # click's test runner normalises line ends of the captured stdout
                            if produced.replace('\r\n', '\n') != want.getvalue().replace('\r\n', '\n'):
                                fails.append(('cli:output', f'{label}\n got:\n{produced[:600]}\n expected:\n{want.getvalue()[:600]}'))
                            stderr = result.stderr
                            reported = 'does not balance' in stderr or 'Invalid reference' in stderr or 'Nope' in stderr
                            if q and reported:
                                fails.append(('cli:-q-reports-errors', f'{label}: stderr {stderr[:300]!r}'))
                            if not q and not reported:
                                fails.append(('cli:errors-not-reported', f'{label}: stderr {stderr[:300]!r}'))
                            sh.record(f'cli|{label}', True, {'args': label} if len(sh.samples) < 4 else None)
    finally:
        for name in os.listdir(tmp):
            os.unlink(os.path.join(tmp, name))
        os.rmdir(tmp)
    return fails


RELOAD_V2 = '''
2019-03-09 * "More digits"
  Expenses:Food            1.2345 USD
  Expenses:Fees            0.125 EUR
  Assets:Bank:Checking    -1.2345 USD
  Assets:Bank:Checking    -0.125 EUR
2019-03-09 query "late" "SELECT account, sum(position) AS s WHERE account ~ 'Fees' GROUP BY 1"
'''
RELOAD_QUERIES = ["SELECT account, sum(position) AS s GROUP BY account ORDER BY account", "SELECT account, position WHERE account ~ 'Food|Fees'",
                  'BALANCES', '.run byaccount', '.run late', '.run']


def prop_reload(sh, case):
    """After the ledger file changed and `.reload`, the shell prints what a fresh shell over the new file prints, for every
    combination of format / numberify: nothing derived from the old ledger (display precision, named queries) survives."""
    fails = []
    tmp = tempfile.mkdtemp(prefix='c19r-', dir='/dev/shm' if os.path.isdir('/dev/shm') else None)
    path = os.path.join(tmp, 'ledger.beancount')

    def run(bsh, out, line):
        out.seek(0)
        out.truncate()
        so, se = io.StringIO(), io.StringIO()
        with contextlib.redirect_stdout(so), contextlib.redirect_stderr(se), warnings_silenced():
            try:
                bsh.onecmd(line)
            except Exception as e:  # noqa: BLE001
                return f'raised {type(e).__name__}: {e}'
        return out.getvalue() + so.getvalue() + '|' + se.getvalue()
    try:
        for fmt in ('text', 'csv'):
            for num in (False, True):
                with open(path, 'w') as f:
                    f.write(LEDGER)
                out = io.StringIO()
                with warnings_silenced():
                    old = shell.BQLShell(path, out, format=fmt, numberify=num)
                    old.do_reload()
                for q in RELOAD_QUERIES:
                    run(old, out, q)
                with open(path, 'w') as f:
                    f.write(LEDGER + RELOAD_V2)
                run(old, out, '.reload')
                out2 = io.StringIO()
                with warnings_silenced():
                    new = shell.BQLShell(path, out2, format=fmt, numberify=num)
                    new.do_reload()
                for q in RELOAD_QUERIES:
                    got, want = run(old, out, q), run(new, out2, q)
                    if got != want:
                        fails.append(('reload:differs-from-fresh-shell', f'format={fmt} numberify={num} {q!r}\n after .reload:\n{got}\n fresh shell:\n{want}'))
                    sh.record(f'reload|{fmt}|{num}|{q}', True, {'reload': f'format={fmt} numberify={num} {q}'} if len(sh.samples) < 6 else None)
    finally:
        for name in os.listdir(tmp):
            os.unlink(os.path.join(tmp, name))
        os.rmdir(tmp)
    return fails


PARTS = {'history': prop_history, 'cli': prop_cli, 'reload': prop_reload}


def run(sh):
    if sh.index == 0:
        for sig, detail in prop_cli(sh, None):
            sh.fail(sig, detail, None, 'cli')
    if sh.index == 1 % sh.n:
        for sig, detail in prop_reload(sh, None):
            sh.fail(sig, detail, None, 'reload')
    sh.search('history', history.map(lambda ops: {'ops': ops}), prop_history, quick=1600, thorough=40000)
