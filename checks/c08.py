"""C08 - subqueries compose: FROM (subquery) / IN (subquery) equal their materialised forms.

from  : chains table -> q1 [-> q2] -> outer (inner queries filtered / aggregated / ordered with
        hidden keys / DISTINCT / LIMIT, aliased and expression-named outputs, several columns of
        one type).  Oracles: (a) materialisation - the inner result (engine) is registered as a
        harness table and the outer query over it returns the same rows and datatypes; (b) the
        reference model; (c) SELECT * FROM (q) == q.
in    : x [NOT] IN (SELECT y FROM #u ...) in targets and WHERE, inner table different from the
        outer one, empty inner results, NULL x; vs the reference model and vs the same statement
        with the subquery replaced by the literal list of its values.
twins : one statement with several sub-selects of identical text binding different positional (or named)
        parameters, vs the same statement with the values written as literals."""
from hypothesis import strategies as st

from vlib import bql, gen, harness, htables, jsonio, refmodel
from vlib.runner import exc_sig

ID = 'C08'
RULE = ('from: table + chain of 1..2 inner SELECTs + outer SELECT over the inner output names; non-trivial = the inner '
        'query has a hidden helper column or ORDER BY/LIMIT/DISTINCT and >= 2 visible columns of one datatype, and returns '
        '>= 2 rows. in: outer SELECT over #t using x [NOT] IN (SELECT .. FROM #u ..) in a target and/or WHERE; '
        'non-trivial = inner table differs from outer, >= 1 outer row, and x NULL or inner empty or both outcomes occur. '
        'Distinct by hash of (statement, tables).')
ASSUMPTIONS = ['inner output names are made unique (duplicate output names: known finding C08 star-duplicate-names)',
               'IN-subquery values are hashable scalars']


def uniquify_names(sel):
    seen = set()
    tl = []
    for i, (e, a) in enumerate(sel['targets']):
        name = a if a is not None else (e[1] if e[0] == 'col' else None)
        if name is None or name in seen:
            a = f'q{i}'
            name = a
        seen.add(name)
        tl.append((e, a))
    sel['targets'] = tl
    return sel


def rename_outputs(sel, level, cols):
    """Give every output of an inner query a level-specific alias (so that names of one level never
    collide with aliases generated for the next) and update by-name references to the old aliases."""
    colnames = {n for n, _ in cols}
    mapping = {}
    tl = []
    for i, (e, a) in enumerate(sel['targets']):
        # one output in three is called `meta`, a name the ledger tables leave out of their own wildcard
        new = f'v{level}_{i}' if (i, level % 2) != (1, 0) or len(sel['targets']) % 3 else 'meta'
        if a is not None:
            mapping[a] = new
        elif e[0] == 'col' and i % 2 == 0:
            tl.append((e, None))       # keep some bare columns addressable by their own name
            continue
        tl.append((e, new))
    sel['targets'] = tl

    def fix(k):
        if isinstance(k, list) and k[0] == 'col' and k[1] in mapping and k[1] not in colnames:
            return ['col', mapping[k[1]]]
        return k
    if sel['group_by'] is not None:
        sel['group_by'] = [fix(k) for k in sel['group_by']]
    if sel['order_by'] is not None:
        sel['order_by'] = [(fix(k), d) for k, d in sel['order_by']]
    return uniquify_names(sel)


def output_cols(sel, cols):
    env = dict(cols)
    out = []
    for e, a in sel['targets']:
        name = a if a is not None else e[1]
        out.append((name, bql.infer(e, env)))
    return out


@st.composite
def from_case(draw):
    table = draw(gen.tables(max_cols=4, max_rows=8))
    cols = table['cols']
    chain = []
    name = table['name']
    for level in range(draw(st.sampled_from([1, 1, 2]))):
        pseudo = {'name': name, 'cols': cols}
        if draw(st.booleans()):
            q = draw(gen.agg_selects(pseudo))
        else:
            q = draw(gen.plain_selects(pseudo, types=gen.SCALARS))
        q = rename_outputs(q, level, cols)
        if chain:
            q['from'] = ('subq', chain[-1])
        cols = output_cols(q, cols)
        chain.append(q)
        name = 'm'
    pseudo = {'name': 'm', 'cols': cols}
    kind = draw(st.sampled_from(['star', 'plain', 'plain', 'agg']))
    if kind == 'star':
        outer = bql.select('*', None, distinct=draw(st.booleans()))
    elif kind == 'agg':
        outer = harness.force_aliases(draw(gen.agg_selects(pseudo)))
    else:
        outer = harness.force_aliases(draw(gen.plain_selects(pseudo, types=gen.SCALARS)))
    outer['from'] = ('subq', chain[-1])
    return {'tables': [table], 'sel': outer, 'text': bql.statement(outer), 'via_ast': draw(st.integers(0, 4)) > 0}


def inner_of(sel):
    return sel['from'][1]


def prop_from(sh, case):
    fails, info = harness.compare_select(case)
    if 'undef' in info:
        sh.count('oracle_undefined')
        sh.record(None, False)
        return fails
    fails = [(f'from:{s}', d) for s, d in fails]
    outer = case['sel']
    inner = inner_of(outer)
    conn, _ = harness.connect(case['tables'])
    run = lambda s: harness.engine(conn, bql.to_ast(s) if case.get('via_ast') else bql.statement(s))  # noqa: E731
    ri = run(inner)
    nontrivial = False
    if ri[0] == 'ok' and not any(s.startswith('from:accepted-query-raises') for s, _ in fails):
        desc, rows = ri[1], ri[2]
        names = [d.name for d in desc]
        if len(set(names)) == len(names):
            mat = htables.HTable('mat', [(d.name, d.datatype) for d in desc], rows)
            conn.tables['mat'] = mat
            outer2 = dict(outer, **{'from': ('table', 'mat')})
            r1, r2 = run(outer), run(outer2)
            if r1[0] != r2[0]:
                fails.append(('from:materialised-outcome', f"{case['text']!r}: subquery {r1[0]} / materialised {r2[0]}: {r1[1]!r} {r2[1]!r}"))
            elif r1[0] == 'ok':
                if r1[2] != r2[2]:
                    fails.append(('from:materialised-rows', f"{case['text']!r}\n subquery {r1[2]!r}\n materialised {r2[2]!r}"))
                if [(d.name, d.datatype) for d in r1[1]] != [(d.name, d.datatype) for d in r2[1]]:
                    fails.append(('from:materialised-description', f"{case['text']!r}: {r1[1]!r} vs {r2[1]!r}"))
                if outer['targets'] == '*' and not outer['distinct']:
                    if r1[2] != rows or list(r1[1]) != list(desc):
                        fails.append(('from:star-not-identity', f"{case['text']!r}\n star {r1[1]!r} {r1[2]!r}\n inner {desc!r} {rows!r}"))
        tl = [e for e, _ in inner['targets']]
        tnames = [a if a is not None else e[1] for e, a in inner['targets']]
        hidden = any(not isinstance(k, int) and k not in tl and not (k[0] == 'col' and k[1] in tnames)
                     for k in (inner['group_by'] or []) + [k for k, _ in (inner['order_by'] or [])]) or inner['having'] is not None
        special = hidden or inner['order_by'] or inner['limit'] is not None or inner['distinct']
        types = [d.datatype for d in desc]
        nontrivial = bool(special) and len(types) > len(set(types)) and len(rows) >= 2
        sh.count('inner:' + ('agg' if inner['group_by'] is not None or any(bql.is_aggregate(e) for e in tl) else 'plain'))
        sh.count('outer:' + ('star' if outer['targets'] == '*' else 'select'))
        if inner['from'] and inner['from'][0] == 'subq':
            sh.count('depth:3')
    sh.record(jsonio.case_hash([case['sel'], case['tables']]), nontrivial,
              {'text': case['text'], 'result': repr(info.get('want'))[:200]} if nontrivial else None)
    return fails


@st.composite
def in_case(draw):
    table = draw(gen.tables(max_cols=4, max_rows=6, types=gen.KEYTYPES))
    other = draw(gen.tables(name='u', max_cols=3, max_rows=5, types=gen.KEYTYPES))
    other['cols'] = [(('v' + n[1:]) if n != 'rid' else 'uid', t) for n, t in other['cols']]
    cols, ucols = table['cols'], other['cols']
    same = draw(st.integers(0, 4)) == 0
    src, scols = (table, cols) if same else (other, ucols)
    t = draw(st.sampled_from(['int', 'str', 'date', 'decimal', 'bool']))
    x = draw(gen.exprs(t, cols, 1))
    # int and decimal are comparable: membership across the two is membership by value
    ty = {'int': 'decimal', 'decimal': 'int'}[t] if t in ('int', 'decimal') and draw(st.integers(0, 2)) == 0 else t
    y = draw(gen.exprs(ty, scols, 1))
    inner = bql.select([(y, None if y[0] == 'col' else 'y')], ('table', src['name']),
                       draw(st.none() | gen.exprs('bool', scols, 1) | st.just(['const', 'bool', False])),
                       distinct=draw(st.booleans()))
    if draw(st.booleans()):
        k, _ = draw(gen.key_exprs(scols))
        inner['order_by'] = [(k, draw(st.sampled_from(['ASC', 'DESC'])))]
        inner['limit'] = draw(st.sampled_from([None, 0, 1, 2, 3]))
    third = None
    if draw(st.integers(0, 2)) == 0:
        # the inner query has an IN-subquery of its own, over a third table
        third = draw(gen.tables(name='w', max_cols=2, max_rows=4, types=gen.KEYTYPES))
        third['cols'] = [(('z' + n[1:]) if n != 'rid' else 'wid', ty) for n, ty in third['cols']]
        t3 = draw(st.sampled_from(['int', 'str', 'date']))
        cond = [draw(st.sampled_from(['in', 'notin'])), draw(gen.exprs(t3, scols, 1)),
                ['subq', bql.select([(draw(gen.exprs(t3, third['cols'], 1)), 'z')], ('table', 'w'))]]
        inner['where'] = cond if inner['where'] is None else ['and', [cond, inner['where']]]
    op = draw(st.sampled_from(['in', 'notin']))
    member = [op, x, ['subq', inner]]
    where_it = draw(st.sampled_from(['target', 'where', 'both']))
    tl = [(['col', 'rid'], None)]
    if where_it in ('target', 'both'):
        tl.append((member, 'r'))
    # columns of the outer table referenced AFTER the membership test
    tl += draw(gen.targets(cols, 1, 2, depth=1, types=gen.KEYTYPES, alias_p=1.0))
    where = member if where_it in ('where', 'both') else None
    if where is not None and draw(st.booleans()):
        where = ['and', [where, draw(gen.exprs('bool', cols, 1))]]
    sel = harness.force_aliases(bql.select(tl, ('table', table['name']), where))
    return {'tables': [table, other] + ([third] if third else []), 'sel': sel, 'text': bql.statement(sel),
            'via_ast': draw(st.integers(0, 3)) > 0, 'member': member, 'same_table': same}


def prop_in(sh, case):
    fails, info = harness.compare_select(case)
    if 'undef' in info:
        sh.count('oracle_undefined')
        sh.record(None, False)
        return fails
    fails = [(f'in:{s}', d) for s, d in fails]
    member = case['member']
    inner = member[2][1]
    # metamorphic: the subquery replaced by the literal list of its single column
    m = harness.model(inner, case['tables'])
    nontrivial = False
    if m[0] == 'ok' and 'want' in info:
        vals = [r[0] for r in m[3]]
        x_probe = harness.model(bql.select([(member[1], 'x')], case['sel']['from']), case['tables'])
        xs = [r[0] for r in x_probe[3]] if x_probe[0] == 'ok' else []
        outcomes = {(None if (x is None or not vals) else (x in vals)) for x in xs}
        nontrivial = (not case['same_table']) and len(xs) >= 1 and (None in outcomes or len(outcomes) >= 2)
        sh.count('inner_empty' if not vals else 'inner_nonempty')
        if any(x is None for x in xs):
            sh.count('x_null')
    sh.record(jsonio.case_hash([case['sel'], case['tables']]), nontrivial,
              {'text': case['text'], 'result': repr(info.get('want'))[:200]} if nontrivial else None)
    return fails


def prop_star_dup(sh, case):
    """Pinned: SELECT * FROM (q) with duplicate output names in q (known finding)."""
    table = {'name': 't', 'cols': [('rid', 'int'), ('a', 'int')], 'rows': [(0, 5), (1, 6)]}
    conn, _ = harness.connect([table])
    q = 'SELECT a, a FROM #t'
    r0 = harness.engine(conn, q)
    r = harness.engine(conn, f'SELECT * FROM ({q})')
    sh.record('star-dup', False)
    if r[0] != 'ok':
        return [(exc_sig(r[1], 'star-duplicate-names'), repr(r[1]))]
    if r[2] != r0[2] or [d.name for d in r[1]] != [d.name for d in r0[1]]:
        return [('star-duplicate-names', f'SELECT * FROM ({q}) returns {[d.name for d in r[1]]} {r[2]!r}; q returns {[d.name for d in r0[1]]} {r0[2]!r}')]
    return []


def hidden_cases():
    """Outer queries whose ORDER BY / GROUP BY / WHERE use a sub-select column that is not selected, next to a selected
    column (or same-shaped expression) of the same datatype: each column of the sub-select is its own column."""
    import itertools
    vals = [None, -1, 0, 2]
    rows = [(i,) + r for i, r in enumerate(itertools.product(vals, vals))] * 1
    table = {'name': 'm', 'cols': [('rid', 'int'), ('x', 'int'), ('y', 'int'), ('s', 'str'), ('t', 'str')],
             'rows': [r + ('abc'[r[0] % 3], 'zyxw'[r[0] % 4]) for r in rows]}
    col = lambda n: ['col', n]  # noqa: E731
    one = ['const', 'int', 1]
    out = []
    for inner in (bql.select([(col('rid'), 'r'), (col('x'), 'a'), (col('y'), 'b'), (col('s'), 'c'), (col('t'), 'd')], ('table', 'm')),
                  bql.select([(col('y'), 'b'), (col('t'), 'd'), (col('x'), 'a'), (col('s'), 'c'), (col('rid'), 'r')], ('table', 'm'),
                             order_by=[(col('rid'), 'DESC')])):
        frm = ('subq', inner)
        for d in ('ASC', 'DESC'):
            out += [bql.select([(col('a'), None)], frm, order_by=[(col('b'), d), (col('r'), 'ASC')]),
                    bql.select([(col('b'), None)], frm, order_by=[(col('a'), d), (col('r'), 'ASC')]),
                    bql.select([(col('c'), None)], frm, order_by=[(col('d'), d), (col('r'), 'ASC')]),
                    bql.select([(['add', col('a'), one], 'e')], frm, order_by=[(['add', col('b'), one], d), (col('r'), 'ASC')]),
                    bql.select([(col('a'), None), (col('r'), None)], frm, order_by=[(col('b'), d), (col('r'), d)]),
                    bql.select([(['fn', 'upper', [col('c')]], 'u')], frm, order_by=[(['fn', 'upper', [col('d')]], d), (col('r'), 'ASC')])]
        out += [bql.select([(['fn', 'max', [col('a')]], 'm'), (['fn', 'count', [['star']]], 'n')], frm, group_by=[col('b')]),
                bql.select([(['fn', 'min', [col('c')]], 'm')], frm, group_by=[col('d')]),
                bql.select([(['fn', 'sum', [col('b')]], 'm')], frm, group_by=[col('a')], order_by=[(col('a'), 'DESC')]),
                bql.select([(col('a'), None)], frm, where=['gt', col('b'), ['const', 'int', 0]]),
                bql.select([(col('c'), None)], frm, where=['eq', col('d'), ['const', 'str', 'z']]),
                bql.select([(col('a'), None), (['fn', 'count', [['star']]], 'n')], frm, group_by=[col('a'), col('b')])]
    # LIMIT of the outer query cuts the outer result, never the rows the sub-select delivers to it
    for inner in (bql.select([(col('rid'), 'r'), (col('x'), 'a'), (col('s'), 'c')], ('table', 'm')),
                  bql.select([(col('rid'), 'r'), (col('x'), 'a'), (col('s'), 'c')], ('table', 'm'), limit=9),
                  bql.select([(col('rid'), 'r'), (col('x'), 'a'), (col('s'), 'c')], ('table', 'm'), order_by=[(col('y'), 'DESC')])):
        frm = ('subq', inner)
        cnt = ['fn', 'count', [['star']]]
        for lim in (1, 2, 5):
            out += [bql.select([(cnt, 'n'), (['fn', 'sum', [col('a')]], 't')], frm, limit=lim),
                    bql.select([(col('c'), None), (cnt, 'n')], frm, limit=lim),
                    bql.select([(col('c'), None), (['fn', 'max', [col('r')]], 'mx')], frm, group_by=[col('c')], limit=lim),
                    bql.select([(col('c'), None)], frm, distinct=True, limit=lim),
                    bql.select([(col('r'), None)], frm, where=['gt', col('a'), ['const', 'int', 0]], limit=lim),
                    bql.select([(col('r'), None), (col('a'), None)], frm, order_by=[(col('a'), 'DESC'), (col('r'), 'ASC')], limit=lim),
                    bql.select([(col('r'), None)], frm, limit=lim)]
    # membership in an ordered and cut sub-select: which rows survive the LIMIT depends on the order (also on hidden keys)
    frm = ('table', 'm')
    for d in ('ASC', 'DESC'):
        for lim in (1, 3, 5):
            for key in ([(col('x'), d), (col('rid'), 'ASC')], [(col('y'), d), (col('rid'), d)], [(['neg', col('rid')], d)]):
                inner = bql.select([(col('rid'), 'r')], frm, order_by=key, limit=lim)
                out.append(bql.select([(col('rid'), None), (['in', col('rid'), ['subq', inner]], 'member')], frm))
                out.append(bql.select([(col('rid'), None)], frm, where=['notin', col('rid'), ['subq', inner]]))
            inner = bql.select([(col('x'), None)], frm, where=['isnotnull', col('x')], order_by=[(col('y'), d), (col('rid'), 'ASC')],
                               limit=lim, distinct=True)
            out.append(bql.select([(col('rid'), None)], frm, where=['in', col('y'), ['subq', inner]]))
    return [{'tables': [table], 'sel': harness.force_aliases(s), 'text': bql.statement(s), 'via_ast': i % 2 == 0} for i, s in enumerate(out)]


def prop_hidden(sh, case):
    fails, info = harness.compare_select(case)
    sh.record(jsonio.case_hash(case['text']), 'want' in info and len(info['want']) >= 2, {'text': case['text']})
    return [(f'hidden:{s}', d) for s, d in fails]


TWIN_FORMS = [
    'SELECT x, x IN (SELECT a FROM #s WHERE b < {0}) AS m FROM #t WHERE x IN (SELECT a FROM #s WHERE b < {1})',
    'SELECT x FROM #t WHERE x IN (SELECT a FROM #s WHERE b < {0}) AND x NOT IN (SELECT a FROM #s WHERE b < {1})',
    'SELECT x, x IN (SELECT a FROM #s WHERE b < {0}) AS m, x IN (SELECT a FROM #s WHERE b < {1}) AS n FROM #t',
    'SELECT x FROM #t WHERE x IN (SELECT a FROM #s WHERE b < {0} AND a IN (SELECT x FROM #t WHERE x > {1})) OR x IN (SELECT a FROM #s WHERE b < {2} AND a IN (SELECT x FROM #t WHERE x > {3}))',
    'SELECT x, (SELECT count(a) FROM #s WHERE b < {0}) AS c FROM (SELECT x FROM #t WHERE x IN (SELECT a FROM #s WHERE b < {1})) WHERE x IN (SELECT a FROM #s WHERE b < {2})',
]


@st.composite
def twins_case(draw):
    """One statement holding several sub-selects that are the same text and differ in the positional parameters they bind."""
    ival = st.none() | st.integers(-1, 6)
    srows = draw(st.lists(st.tuples(st.integers(0, 5), ival), min_size=2, max_size=8))
    trows = draw(st.lists(st.tuples(ival), min_size=1, max_size=7))
    form = draw(st.integers(0, len(TWIN_FORMS) - 1))
    n = TWIN_FORMS[form].count('{')
    params = draw(st.lists(st.integers(-1, 7), min_size=n, max_size=n))
    return {'tables': [{'name': 's', 'cols': [('a', 'int'), ('b', 'int')], 'rows': srows},
                       {'name': 't', 'cols': [('x', 'int')], 'rows': trows}],
            'form': form, 'params': params, 'named': draw(st.booleans()) and len(set(params)) == len(params)}


def prop_twins(sh, case):
    """Binding parameters equals writing the values: each sub-select sees its own parameters, however alike the texts."""
    fails = []
    form, params = TWIN_FORMS[case['form']], case['params']
    literal = form.format(*params)
    if case['named']:
        text, bound = form.format(*[f'%(p{v + 1})s' for v in params]), {f'p{v + 1}': v for v in params}
    else:
        text, bound = form.format(*['%s'] * len(params)), tuple(params)
    if case['form'] == 4 and not _scalar_subselects():
        sh.record(None, False)
        return fails
    want = harness.engine(harness.connect(case['tables'])[0], literal)
    got = harness.engine(harness.connect(case['tables'])[0], text, bound)
    if want[0] == 'exc':
        if got[0] != 'exc' or type(got[1]) is not type(want[1]):
            fails.append(('twins:literal-form-raises-only', f'{literal!r}: {want[1]!r}; with parameters {got[1:]!r}'))
        sh.record(None, False)
        return fails
    if got[0] == 'exc':
        fails.append((exc_sig(got[1], 'twins:raises'), f'{text!r} {bound!r}: {got[1]!r}'))
    elif got[2] != want[2] or harness.describe_types(got[1]) != harness.describe_types(want[1]):
        fails.append(('twins:differs-from-literal-form', f'{text!r} {bound!r}\n got  {got[2]!r}\n want {want[2]!r} ({literal!r})'))
    sh.record(jsonio.case_hash([case['form'], case['params'], case['tables'], case['named']]),
              len(set(params)) >= 2 and len(want[2]) >= 1, {'text': text, 'params': list(params), 'rows': repr(want[2])[:160]})
    return fails


_SCALAR = []


def _scalar_subselects():
    if not _SCALAR:
        t = [{'name': 't', 'cols': [('x', 'int')], 'rows': [(1,)]}]
        _SCALAR.append(harness.engine(harness.connect(t)[0], 'SELECT (SELECT count(x) FROM #t) AS c FROM #t')[0] == 'ok')
    return _SCALAR[0]


PARTS = {'from': prop_from, 'in': prop_in, 'stardup': prop_star_dup, 'hidden': prop_hidden, 'twins': prop_twins}


def run(sh):
    for case in sh.mine(hidden_cases()):
        for sig, detail in prop_hidden(sh, case):
            sh.fail(sig, detail, case, 'hidden')
    sh.search('from', from_case(), prop_from, quick=3000, thorough=80000)
    sh.search('in', in_case(), prop_in, quick=3000, thorough=80000)
    sh.search('twins', twins_case(), prop_twins, quick=400, thorough=40000)
