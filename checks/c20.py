"""C20 - thread isolation: concurrent queries give the same results as serial execution.

A deterministic scheduler owns the interleaving: 2-3 real threads, exactly one runs at a time, and
control changes hands only at yield points the harness places through public API -
  * sub-expression level: the impure BQL function vyield(x), registered with query_env.function,
    called between targets and inside WHERE / aggregates;
  * row level: table iterators that yield between rows (harness tables and a PostingsTable subclass);
  * compile level: column look-ups of the tables (a dict subclass), so that compilations overlap.
A run is a pure function of (queries, connection sharing, schedule).  Oracle: every thread's result
equals the result of its query executed alone on a fresh connection."""
import itertools
import os
import sys
import threading

from hypothesis import strategies as st

import beanquery
from beanquery import query_env

from vlib import harness, htables, jsonio, ledgers
from vlib.runner import exc_sig

ID = 'C20'
RULE = ('case = 2..3 queries from a pool (balance referenced 0..3 times, aggregates, IN-subqueries, parameters, OPEN/CLOSE, '
        'harness-table queries) x connection sharing (one shared connection / separate connections on one ledger / separate '
        'ledgers) x schedule (list of <= 80 thread choices, consumed at every yield point). exhaustive part: all 2^10 '
        'schedules of two balance queries on separate connections and on a shared one. Non-trivial = >= 2 context switches '
        'occurred while both threads were still running. Distinct by hash of the case.')
ASSUMPTIONS = ['interleavings are explored at sub-expression, row and column-lookup granularity, not inside single byte codes of '
               'Beancount or CPython; beanquery itself holds no locks, so every cross-thread dependency lies across such a point',
               'results are compared with a serial run on a fresh connection over the same data']

LEDGER_B = '''
option "operating_currency" "EUR"
2019-01-01 open Assets:Cash
2019-01-01 open Assets:Broker
2019-01-01 open Expenses:Food
2019-01-01 open Income:Job
2019-01-03 * "Pay"
  Income:Job    -900.00 EUR
  Assets:Cash    900.00 EUR
2019-01-04 * "Eat"
  Expenses:Food   12.50 EUR
  Assets:Cash    -12.50 EUR
2019-01-05 * "Buy"
  Assets:Broker    3 HOOL {20.00 EUR}
  Assets:Cash    -60.00 EUR
2019-01-09 * "Eat again"
  Expenses:Food    7.50 EUR
  Assets:Cash     -7.50 EUR
'''

_CURRENT = [None]


def yield_point():
    s = _CURRENT[0]
    if s is not None:
        s.yield_point()


@query_env.function([int], int, pass_context=True, name='vyield')
def vyield(context, x):
    """Harness function: hands control to the scheduler (impure, so never folded)."""
    yield_point()
    return x


class YColumns(dict):
    def get(self, name, default=None):
        yield_point()
        return super().get(name, default)


class YPostings(query_env.PostingsTable):
    def __init__(self, entries, options, **kw):
        super().__init__(entries, options, **kw)
        self.columns = YColumns(query_env.PostingsTable.columns)

    def __iter__(self):
        for row in super().__iter__():
            yield_point()
            yield row


class YTable(htables.HTable):
    def __init__(self, name, cols, rows):
        super().__init__(name, cols, rows)
        self.columns = YColumns(self.columns)

    def __iter__(self):
        for row in self.rows:
            yield_point()
            yield row


class YKey:
    """A sort key whose comparison hands control to the scheduler."""
    __slots__ = ('v',)

    def __init__(self, v):
        self.v = v

    def __lt__(self, other):
        yield_point()
        return self.v < other.v

    def __gt__(self, other):
        yield_point()
        return self.v > other.v

    def __eq__(self, other):
        return isinstance(other, YKey) and self.v == other.v

    def __hash__(self):
        return hash(self.v)

    def __repr__(self):
        return f'YKey({self.v})'


class SchedulerStall(RuntimeError):
    """A hand-over did not happen within a minute (machine overloaded): the case is inconclusive, never a violation."""


class Sched:
    """Exactly one worker runs at a time; switches happen only at yield points."""

    def __init__(self, n, schedule, period=1):
        self.n = n
        self.schedule = list(schedule)
        self.period = max(1, period)
        self.go = [threading.Semaphore(0) for _ in range(n)]
        self.back = threading.Semaphore(0)
        self.done = [False] * n
        self.local = threading.local()
        self.switches_while_all_running = 0
        self.yields = [0] * n

    def yield_point(self):
        i = getattr(self.local, 'idx', None)
        if i is None:
            return
        self.yields[i] += 1
        self.back.release()
        if not self.go[i].acquire(timeout=60):
            raise SchedulerStall('scheduler lost')

    def worker(self, i, fn, out):
        self.local.idx = i
        self.go[i].acquire()
        try:
            out[i] = ('ok', fn())
        except Exception as e:  # noqa: BLE001
            out[i] = ('exc', e)
        self.done[i] = True
        self.back.release()

    def run(self, fns):
        out = [None] * self.n
        threads = [threading.Thread(target=self.worker, args=(i, fn, out), daemon=True) for i, fn in enumerate(fns)]
        for t in threads:
            t.start()
        k = 0
        last = None
        while not all(self.done):
            runnable = [i for i in range(self.n) if not self.done[i]]
            if k < len(self.schedule):
                pick = runnable[self.schedule[k] % len(runnable)]
            else:
                # past the end of the schedule the threads alternate at every (period-th) yield point
                if last in runnable and (k - len(self.schedule)) % self.period:
                    pick = last
                else:
                    later = [i for i in runnable if last is not None and i > last]
                    pick = later[0] if later else runnable[0]
            k += 1
            if last is not None and pick != last and len(runnable) == self.n:
                self.switches_while_all_running += 1
            last = pick
            self.go[pick].release()
            if not self.back.acquire(timeout=60):
                raise SchedulerStall('worker does not return control')
        for t in threads:
            t.join(timeout=10)
        return out


TABLE_T = ('t', [('x', int), ('s', str)], [(1, 'a'), (2, 'b'), (3, 'a'), (4, 'c'), (2, 'a')])
TABLE_U = ('u', [('y', int)], [(2,), (3,), (9,)])
TABLE_O = ('o', [('x', int), ('k', YKey)], [(3, YKey(5)), (1, YKey(2)), (4, YKey(9)), (1, YKey(7)), (5, YKey(1)), (9, YKey(4))])

QUERIES = [
    ("SELECT balance, vyield(1), balance WHERE account ~ 'Bank|Cash'", None),
    ("SELECT date, account, balance WHERE account ~ 'Cash|Checking'", None),
    ("SELECT account, balance, vyield(1) AS y, units(balance) AS u, vyield(2) AS z, cost(balance) AS c", None),
    ("SELECT account, position WHERE vyield(1) = 1 AND NOT empty(balance)", None),
    ("SELECT account, sum(position) AS s, count(*) AS n GROUP BY account ORDER BY account", None),
    ("SELECT account, sum(number * vyield(1)) AS s GROUP BY account ORDER BY account", None),
    ("SELECT date, narration, balance FROM year = 2019 CLOSE ON 2019-02-01 WHERE vyield(1) > 0", None),
    ("SELECT account, sum(position) AS s FROM OPEN ON 2019-01-04 CLEAR GROUP BY account ORDER BY account", None),
    ("SELECT date, account, number WHERE account IN (SELECT account WHERE number > %s) AND vyield(1) = 1", [50]),
    ("SELECT date, account, number WHERE account IN (SELECT account WHERE number > %s) AND vyield(1) = 1", [500]),
    ("SELECT account, number * %(k)s AS scaled, %(k)s AS k WHERE number > %(v)s", {'k': 2, 'v': 10}),
    ("SELECT account, number * %(k)s AS scaled, %(k)s AS k WHERE number > %(v)s", {'k': -3, 'v': 100}),
    ("SELECT x, x * %(k)s AS y FROM #t WHERE x = %(v)s", {'k': 10, 'v': 1}),
    ("SELECT x, x * %(k)s AS y FROM #t WHERE x = %(v)s", {'k': 100, 'v': 2}),
    ("SELECT s, sum(x + vyield(0)) AS t, count(*) AS n FROM #t GROUP BY s ORDER BY s", None),
    ("SELECT x FROM #t WHERE x IN (SELECT y FROM #u WHERE vyield(1) = 1) ORDER BY x DESC", None),
    ("SELECT x + %s AS a, %s - x AS b FROM #t WHERE x > %s", [1, 10, 1]),
    ("SELECT x + %s AS a, %s - x AS b FROM #t WHERE x > %s", [100, 0, 3]),
    ("SELECT y, vyield(y) AS v FROM #u", None),
    ("BALANCES AT units", None),
    ("JOURNAL 'Cash|Checking'", None),
    # yield points while the aggregates of a group are being read (between two aggregate targets)
    ("SELECT s, count(*) AS n, vyield(count(*)) AS y, sum(x) AS t, vyield(max(x)) AS m, min(x) AS lo FROM #t GROUP BY s ORDER BY s", None),
    ("SELECT account, count(*) AS n, vyield(count(*)) AS y, sum(position) AS s, vyield(1) + count(*) AS z, last(date) AS d GROUP BY account", None),
    # decimal rounding on exact ties (the decimal context is per thread)
    ("SELECT account, round(number / 8, 2) AS r, round(2.50) AS t, round(0.125, 2) AS u, round(number) AS w WHERE vyield(1) = 1", None),
    ("SELECT x, round(x / 8, 2) AS r, round(x / 2) AS h, round(0.5) AS t, round(1.5) AS u, round(0.125, 2) AS v FROM #t", None),
    # several BALANCES / JOURNAL statements sharing a summary function but not their clauses
    ("BALANCES AT units WHERE account ~ 'Assets'", None),
    ("BALANCES AT units FROM year = 2019 WHERE account ~ 'Expenses|Income'", None),
    ("BALANCES WHERE account ~ 'Broker'", None),
    ("BALANCES FROM month = 1", None),
    ("JOURNAL 'Broker'", None),
    ("JOURNAL 'Food' FROM year = 2019", None),
    # sorting: the comparison of sort keys is a yield point (keys of a harness type)
    ("SELECT x, k FROM #o ORDER BY k DESC", None),
    ("SELECT k, x FROM #o ORDER BY x, k", None),
    ("SELECT x FROM #o ORDER BY k", None),
    ("SELECT s, x FROM #t ORDER BY x DESC, s", None),
    # the first statements of a fresh connection that need its account / commodity indexes
    ("SELECT account, open_date(account) AS o, close_date(account) AS c FROM #accounts ORDER BY account", None),
    ("SELECT account, open_date(account) AS o, open_meta(account, 'institution') AS m, vyield(1) AS y WHERE number > 0", None),
    ("SELECT name, meta FROM #commodities ORDER BY name", None),
    ("SELECT DISTINCT currency, commodity_meta(currency, 'name') AS n, currency_meta(currency, 'export') AS e ORDER BY currency", None),
    ("SELECT type, count(*) AS n FROM #entries GROUP BY type ORDER BY type", None),
    ("SELECT date, currency, amount FROM #prices ORDER BY date, currency", None),
]


class YList(list):
    """The ledger's directives: every scan of them (table iteration, index building) has a yield point per directive."""

    def __iter__(self):
        for x in list.__iter__(self):
            yield_point()
            yield x


def connect(ledger_text):
    entries, errors, options = ledgers.load(ledger_text)
    conn = ledgers.connect_entries(YList(entries), options)
    conn.tables['postings'] = YPostings(entries, options)
    conn.tables['t'] = YTable(*TABLE_T)
    conn.tables['u'] = YTable(*TABLE_U)
    conn.tables['o'] = YTable(*TABLE_O)
    return conn


_TRACED_DIRS = (os.path.dirname(os.path.abspath(beanquery.__file__)) + os.sep,)


def _tracer(frame, event, arg):
    # every function call inside the beanquery package (generated parser rules and semantic actions, compiler,
    # evaluation nodes, BQL functions, tables) is a yield point; the TatSu runtime in between is not (100x more calls)
    if event == 'call' and frame.f_code.co_filename.startswith(_TRACED_DIRS):
        yield_point()
    return None


def traced(fn):
    def run():
        sys.settrace(_tracer)
        try:
            return fn()
        finally:
            sys.settrace(None)
    return run


_PARSED = {}


def parsed_for_slot(text, slot):
    if (text, slot) not in _PARSED:
        import beanquery.parser
        _PARSED[text, slot] = beanquery.parser.parse(text)
    return _PARSED[text, slot]


_SERIAL = {}


def serial(ledger_name, qi):
    key = (ledger_name, qi)
    if key not in _SERIAL:
        text, params = QUERIES[qi]
        _SERIAL[key] = harness.engine(connect(LEDGERS[ledger_name]), text, params)
    return _SERIAL[key]


LEDGERS = {'A': ledgers.SAMPLE, 'B': LEDGER_B}


def prop_schedule(sh, case):
    fails = []
    qs, sharing, schedule = case['queries'], case['sharing'], case['schedule']
    n = len(qs)
    if sharing == 'shared':
        names = ['A'] * n
        conn = connect(LEDGERS['A'])
        conns = [conn] * n
    elif sharing == 'separate':
        names = ['A'] * n
        conns = [connect(LEDGERS['A']) for _ in range(n)]
    else:
        names = ['A' if i % 2 == 0 else 'B' for i in range(n)]
        conns = [connect(LEDGERS[x]) for x in names]
    want = [serial(names[i], qs[i]) for i in range(n)]

    def job(i):
        text, params = QUERIES[qs[i]]
        # each thread slot has its own parsed statement (parsed statements are not shared between threads);
        # parsing happens once per process and slot, TatSu being slow
        if case.get('as_text'):
            # the statement goes through Connection.execute as text (parsed inside the thread)
            return lambda: conns[i].execute(text, params).fetchall()
        # ... unless the case says so: one parsed statement object serves all threads executing that text
        statement = parsed_for_slot(text, 0 if case.get('shared_parsed') else i)
        return lambda: conns[i].execute(statement, params).fetchall()
    sched = Sched(n, schedule, case.get('period', 1))
    _CURRENT[0] = sched
    try:
        out = sched.run([traced(job(i)) if case.get('trace') else job(i) for i in range(n)])
    finally:
        _CURRENT[0] = None
    for i in range(n):
        w = want[i]
        got = out[i]
        text = QUERIES[qs[i]][0]
        if w[0] != 'ok':
            continue
        if got[0] != 'ok' and isinstance(got[1], SchedulerStall):
            raise got[1]
        if got[0] != 'ok':
            fails.append((f'concurrent-raises:{type(got[1]).__name__}', f'thread {i} {text!r} [{sharing}] schedule {schedule}: {got[1]!r}'))
        elif got[1] != w[2]:
            fails.append(('differs-from-serial', f'thread {i} {text!r} [{sharing}, other queries {[QUERIES[q][0][:40] for j, q in enumerate(qs) if j != i]}] '
                          f'schedule {schedule}\n concurrent {got[1]!r}\n serial     {w[2]!r}'))
    nontrivial = sched.switches_while_all_running >= 2
    sh.count(f'sharing:{sharing}')
    if case.get('trace'):
        sh.count('trace:cases')
        sh.count('trace:yield_points', sum(sched.yields))
    sh.count(f'switches:{min(sched.switches_while_all_running, 6)}')
    sh.record(jsonio.case_hash(case), nontrivial, {'queries': [QUERIES[q][0] for q in qs], 'sharing': sharing,
                                                   'schedule': schedule[:30]} if nontrivial else None)
    return fails


@st.composite
def schedule_case(draw):
    n = draw(st.sampled_from([2, 2, 2, 3]))
    qs = [draw(st.integers(0, len(QUERIES) - 1)) for _ in range(n)]
    if draw(st.integers(0, 3)) == 0:
        qs[1] = qs[0] ^ 1 if qs[0] ^ 1 < len(QUERIES) else qs[0]     # the sibling statement with other parameters
    same = draw(st.integers(0, 3)) == 0
    if same:
        # the same statement text from two threads on one connection
        qs = [qs[0]] * n
    style = draw(st.sampled_from(['fine', 'runs', 'runs']))
    if style == 'fine':
        schedule = draw(st.lists(st.integers(0, n - 1), max_size=80))
    else:
        runs = draw(st.lists(st.tuples(st.integers(0, n - 1), st.integers(1, 25)), max_size=20))
        schedule = [t for t, k in runs for _ in range(k)]
    if same:
        return {'queries': qs, 'sharing': 'shared', 'schedule': schedule, 'as_text': draw(st.booleans())}
    return {'queries': qs, 'sharing': draw(st.sampled_from(['shared', 'separate', 'separate-ledgers'])), 'schedule': schedule,
            'as_text': draw(st.integers(0, 3)) == 0, 'shared_parsed': draw(st.integers(0, 2)) == 0}


def prop_exhaustive(sh, case):
    """All schedules of length L for fixed pairs of queries (afterwards the threads alternate at every yield point)."""
    fails = []
    pairs = [((0, 0), 'separate'), ((0, 0), 'shared'), ((2, 1), 'separate-ledgers'), ((12, 13), 'shared'), ((16, 17), 'shared'),
             ((8, 9), 'shared'), ((3, 6), 'separate'), ((21, 21), 'shared'), ((22, 22), 'shared'), ((4, 4), 'shared'), ((23, 24), 'separate'),
             ((25, 26), 'separate'), ((29, 30), 'shared'), ((31, 32), 'shared'), ((31, 34), 'separate'), ((35, 36), 'shared'), ((37, 38), 'shared')]
    L = case['length']
    mine = [(p, s) for i, (p, s) in enumerate(pairs) if i % case['of'] == case['index']]
    for (qa, qb), sharing in mine:
        for schedule in itertools.product([0, 1], repeat=L):
            c = {'queries': [qa, qb], 'sharing': sharing, 'schedule': list(schedule), 'as_text': qa == qb and qa >= 21 and sum(schedule[:3]) == 1}
            for sig, detail in prop_schedule(sh, c):
                fails.append((f'exhaustive:{sig}', detail))
            if fails:
                return fails
    return fails


TRACE_PAIRS = [(35, 36), (35, 35), (36, 38), (37, 38), (39, 40), (8, 9), (16, 17), (12, 13), (20, 29), (20, 20), (29, 30), (19, 25), (26, 27), (0, 1), (2, 2), (4, 7), (8, 9), (10, 11), (12, 13), (16, 17), (15, 14),
               (21, 22), (23, 24), (5, 23), (33, 34), (6, 7), (3, 20), (19, 28)]


@st.composite
def trace_case(draw):
    """Function-call granularity: every call inside the beanquery package is a yield point (sys.settrace in the workers), so the
    parser, the compiler and the evaluation of every operand interleave.  The threads run alone for `lead` steps, then
    alternate every `period` steps."""
    if draw(st.booleans()):
        qs = list(draw(st.sampled_from(TRACE_PAIRS)))
        if draw(st.booleans()):
            qs.reverse()
    else:
        qs = [draw(st.integers(0, len(QUERIES) - 1)) for _ in range(2)]
    lead = draw(st.lists(st.tuples(st.integers(0, 1), st.sampled_from([1, 2, 3, 5, 8, 13, 40, 150, 600, 2500])), max_size=3))
    return {'queries': qs, 'sharing': draw(st.sampled_from(['shared', 'shared', 'separate', 'separate-ledgers'])),
            'schedule': [t for t, k in lead for _ in range(k)], 'period': draw(st.sampled_from([1, 1, 2, 3, 5, 7, 11, 31, 97])),
            'as_text': draw(st.booleans()), 'trace': True, 'shared_parsed': draw(st.integers(0, 2)) == 0}


def prop_module(sh, case):
    sh.record('module', False)
    if beanquery.threadsafety != 2:
        return [('module:threadsafety', repr(beanquery.threadsafety))]
    return []


PARTS = {'schedule': prop_schedule, 'trace': prop_schedule, 'exhaustive': prop_exhaustive, 'module': prop_module}


def run(sh):
    if sh.index == 0:
        for sig, detail in prop_module(sh, None):
            sh.fail(sig, detail, None, 'module')
    case = {'length': 8 if sh.tier == 'quick' else 12, 'index': sh.index, 'of': sh.n}
    for sig, detail in prop_exhaustive(sh, case):
        sh.fail(sig, detail, case, 'exhaustive')
    sh.extra['exhaustive_schedule_prefix_length'] = case['length']
    sh.search('schedule', schedule_case(), prop_schedule, quick=4000, thorough=100000)
    sh.search('trace', trace_case(), prop_schedule, quick=320, thorough=8000)
