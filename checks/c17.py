"""C17 - numberify decomposes amounts per currency without losing or inventing quantities.

Generated result tables mixing plain columns with Amount / Position / Inventory columns (several
currencies per column and per inventory, several lots of one currency with and without cost, NULL
cells, empty inventories, zero amounts), with and without a display formatter whose precisions
differ from case to case.  The expected output is derived from the statement of the property."""
import datetime
from decimal import Decimal as D

from hypothesis import strategies as st

import beanquery
from beancount.core import amount, display_context, inventory, position
from beanquery import numberify

from vlib import jsonio, ledgers
from vlib.runner import exc_sig

ID = 'C17'
RULE = ('table = 1..5 columns (int, str, date, decimal, amount, position, inventory), 0..6 rows, NULL probability 0.2; '
        'inventories of 0..5 positions over 4 currencies with several lots (with/without cost) per currency; formatter '
        'absent or built from a display context with random per-currency precision. Non-trivial = an amount-like column '
        'with >= 2 currencies, and an inventory holding >= 2 lots of one currency. Distinct by hash of the case. '
        'ledger: run_query(..., numberify=True) on generated ledgers vs the same oracle.')
ASSUMPTIONS = ['a currency whose amounts are all zero may or may not get a column (the property only forbids dropping non-zero amounts)',
               'tie order among equally frequent currencies is not asserted']

CURRENCIES = ['USD', 'EUR', 'HOOL', 'BTC']


def nums():
    return st.one_of(st.builds(lambda m, e: D(m).scaleb(-e), st.integers(-10**6, 10**6), st.integers(0, 5)),
                     st.sampled_from([D('0'), D('0.00'), D('1'), D('-1.005'), D('2.5')]))


def amounts():
    return st.builds(amount.Amount, nums(), st.sampled_from(CURRENCIES))


def positions():
    costs = st.builds(position.Cost, nums().map(lambda x: abs(x) + 1), st.sampled_from(['USD', 'EUR']),
                      st.sampled_from([datetime.date(2020, 1, 1), datetime.date(2020, 2, 2)]), st.sampled_from([None, 'l']))
    return st.builds(position.Position, amounts(), st.none() | costs)


def inventories():
    def build(ps):
        inv = inventory.Inventory()
        for p in ps:
            inv.add_position(p)
        return inv
    return st.lists(positions(), max_size=5).map(build)


TYPES = {
    'int': (int, st.integers(-99, 99)),
    'str': (str, st.sampled_from(['a', 'Assets:Cash', ''])),
    'date': (datetime.date, st.dates(datetime.date(2020, 1, 1), datetime.date(2020, 12, 31))),
    'decimal': (D, nums()),
    'amount': (amount.Amount, amounts()),
    'position': (position.Position, positions()),
    'inventory': (inventory.Inventory, inventories()),
}


@st.composite
def table_case(draw):
    n = draw(st.integers(1, 5))
    kinds = [draw(st.sampled_from(['int', 'str', 'date', 'decimal', 'amount', 'amount', 'position', 'position',
                                   'inventory', 'inventory', 'inventory'])) for _ in range(n)]
    rows = []
    for _ in range(draw(st.sampled_from([0, 1, 2, 3, 4, 6]))):
        rows.append(tuple(None if draw(st.integers(0, 4)) == 0 else draw(TYPES[k][1]) for k in kinds))
    if rows and draw(st.integers(0, 3)) == 0:
        # a row whose amounts cancel those of an earlier row (the column totals to zero, the cells do not)
        base = draw(st.sampled_from(rows))
        neg = []
        for k, v in zip(kinds, base):
            if v is None:
                neg.append(None)
            elif k == 'amount':
                neg.append(amount.Amount(-v.number, v.currency))
            elif k == 'position':
                neg.append(position.Position(amount.Amount(-v.units.number, v.units.currency), v.cost))
            elif k == 'inventory':
                neg.append(-v)
            else:
                neg.append(v)
        rows.append(tuple(neg))
    fmt = draw(st.none() | st.dictionaries(st.sampled_from(CURRENCIES), st.integers(0, 4), min_size=0, max_size=4))
    return {'kinds': kinds, 'names': [f'c{i}' for i in range(n)], 'rows': rows, 'precisions': fmt}


def formatter(precisions):
    if precisions is None:
        return None
    dcontext = display_context.DisplayContext()
    for cur, digits in precisions.items():
        for _ in range(3):
            dcontext.update(D(1).scaleb(-digits), cur)
    return dcontext.build()


def units_of(kind, value):
    """{currency: total number} held by a cell."""
    out = {}
    if value is None:
        return out
    if kind == 'amount':
        out[value.currency] = value.number
    elif kind == 'position':
        out[value.units.currency] = value.units.number
    else:
        for p in value.get_positions():
            out[p.units.currency] = out.get(p.units.currency, D(0)) + p.units.number
    return out


def check_numberify(columns, rows, kinds, dformat, otypes, orows, fails, shown):
    # split the output columns back per input column
    pos = 0
    layout = []          # per input column: list of (output index, currency or None)
    names = [c.name for c in columns]
    for i, (col, kind) in enumerate(zip(columns, kinds)):
        if kind not in ('amount', 'position', 'inventory'):
            if pos >= len(otypes) or otypes[pos].name != col.name or otypes[pos].datatype is not col.datatype:
                fails.append(('plain-column-changed', f'column {col.name}: {otypes[pos:pos + 1]!r}\n{shown}'))
                return
            layout.append([(pos, None)])
            pos += 1
            continue
        cols = []
        prefix = col.name + ' ('
        while pos < len(otypes) and otypes[pos].name.startswith(prefix) and otypes[pos].name.endswith(')') and \
                not (i + 1 < len(names) and otypes[pos].name == names[i + 1]):
            if otypes[pos].datatype is not D:
                fails.append(('currency-column-not-decimal', f'{otypes[pos]!r}\n{shown}'))
            cols.append((pos, otypes[pos].name[len(prefix):-1]))
            pos += 1
        layout.append(cols)
    if pos != len(otypes):
        fails.append(('unexpected-extra-columns', f'{otypes!r}\n{shown}'))
        return
    if len(orows) != len(rows):
        fails.append(('row-count', f'{len(orows)} vs {len(rows)}\n{shown}'))
        return
    if any(len(r) != len(otypes) for r in orows):
        fails.append(('row-length', shown))
        return
    for i, (kind, cols) in enumerate(zip(kinds, layout)):
        if kind not in ('amount', 'position', 'inventory'):
            for r_in, r_out in zip(rows, orows):
                a, b = r_in[i], r_out[cols[0][0]]
                if not (a is b or (a == b and type(a) is type(b))):
                    fails.append(('plain-cell-changed', f'{a!r} -> {b!r}\n{shown}'))
                    return
            continue
        per_row = [units_of(kind, r[i]) for r in rows]
        occurring = {c for u in per_row for c in u}
        nonzero = {c for u in per_row for c, n in u.items() if n != 0}
        got = [c for _, c in cols]
        if len(set(got)) != len(got):
            fails.append(('duplicate-currency-column', f'{got}\n{shown}'))
        if not nonzero <= set(got):
            fails.append(('currency-dropped', f'column {columns[i].name}: {sorted(nonzero - set(got))} missing from {got}\n{shown}'))
        if not set(got) <= occurring:
            fails.append(('currency-invented', f'column {columns[i].name}: {sorted(set(got) - occurring)}\n{shown}'))
        # an occurrence with a zero amount may or may not count towards the frequency
        freq = [sum(1 for u in per_row if c in u) for c in got]
        freq_nz = [sum(1 for u in per_row if u.get(c)) for c in got]
        if any(a < b for a, b in zip(freq, freq[1:])) and any(a < b for a, b in zip(freq_nz, freq_nz[1:])):
            fails.append(('frequency-order', f'column {columns[i].name}: {list(zip(got, freq))}\n{shown}'))
        for u, r_out in zip(per_row, orows):
            for idx, cur in cols:
                cell = r_out[idx]
                n = u.get(cur)
                if n is None or n == 0:
                    if not (cell is None or cell == 0):
                        fails.append(('absent-currency-has-value', f'{cur}: {cell!r}\n{shown}'))
                    continue
                want = dformat.quantize(n, cur) if dformat else n
                if want == 0 and (cell is None or cell == 0):
                    continue
                if cell != want:
                    fails.append(('wrong-number', f'{columns[i].name} ({cur}): got {cell!r}, want {want!r} (units {n!r})\n{shown}'))
                    return


def prop_table(sh, case):
    fails = []
    kinds, rows = case['kinds'], [tuple(r) for r in case['rows']]
    columns = [beanquery.Column(n, TYPES[k][0]) for n, k in zip(case['names'], kinds)]
    dformat = formatter(case['precisions'])
    shown = f"kinds={kinds} precisions={case['precisions']} rows={rows!r}"[:1500]
    try:
        otypes, orows = numberify.numberify_results(columns, rows, dformat)
    except Exception as exc:  # noqa: BLE001
        return [(exc_sig(exc, 'raises'), f'{exc!r}\n{shown}')]
    check_numberify(columns, rows, kinds, dformat, otypes, orows, fails, shown)
    multi = False
    lots = False
    for i, k in enumerate(kinds):
        if k in ('amount', 'position', 'inventory'):
            if len({c for r in rows for c in units_of(k, r[i])}) >= 2:
                multi = True
        if k == 'inventory':
            for r in rows:
                if r[i] is not None:
                    curs = [p.units.currency for p in r[i].get_positions()]
                    if len(curs) > len(set(curs)):
                        lots = True
    nontrivial = multi and lots
    sh.count('formatter' if dformat else 'no_formatter')
    sh.record(jsonio.case_hash(case), nontrivial, {'kinds': kinds, 'precisions': case['precisions'], 'rows': len(rows)} if nontrivial else None)
    return fails


QUERIES = [
    ('SELECT account, sum(position) AS s, count(*) AS n GROUP BY account', ['str', 'inventory', 'int']),
    ('SELECT date, account, position, weight, balance', ['date', 'str', 'position', 'amount', 'inventory']),
    ('SELECT account, units(sum(position)) AS u, cost(sum(position)) AS c GROUP BY account ORDER BY account', ['str', 'inventory', 'inventory']),
    ('SELECT currency, sum(number) AS t, sum(cost(position)) AS c GROUP BY currency', ['str', 'decimal', 'inventory']),
    ('SELECT account, price, units(position) AS u WHERE price IS NOT NULL OR number < 0', ['str', 'amount', 'amount']),
]


def prop_ledger(sh, case):
    """The run_query(numberify=True) path on a ledger: formatter = the ledger's display context."""
    from beanquery import query
    from vlib import ledgergen
    fails = []
    entries, errors, options = ledgers.load(case['text'])
    q, kinds = QUERIES[case['query'] % len(QUERIES)]
    try:
        rtypes, rrows = query.run_query(entries, options, q)
        otypes, orows = query.run_query(entries, options, q, numberify=True)
    except Exception as exc:  # noqa: BLE001
        return [(exc_sig(exc, 'ledger:raises'), f'{q!r}: {exc!r}')]
    dformat = options['dcontext'].build()
    check_numberify(list(rtypes), rrows, kinds, dformat, otypes, orows, fails, f'{q!r} on a generated ledger')
    sh.record(jsonio.case_hash(case), len(rrows) >= 2, {'query': q, 'columns': [c.name for c in otypes]} if len(rrows) >= 2 else None)
    return [('ledger:' + s, d) for s, d in fails]


def ledger_case():
    from vlib import ledgergen
    return st.builds(lambda d, q: {'text': ledgergen.render(d), 'query': q}, ledgergen.ledgers(max_txns=8, with_pad=False),
                     st.integers(0, len(QUERIES) - 1))


PARTS = {'table': prop_table, 'ledger': prop_ledger}


def run(sh):
    sh.search('table', table_case(), prop_table, quick=20000, thorough=600000)
    sh.search('ledger', ledger_case(), prop_ledger, quick=1500, thorough=40000)
