"""C18 - the scalar function library obeys calendar, account-name, string and numeric laws.

dates    (exhaustive) every date 1900-01-01..2100-12-31 in one table, one query per law: date_trunc
         for 7 units (first day of the unit, <= d, idempotent, monotone), year/month/day/quarter/weekday/
         yearmonth and date_part for 13 fields against the calendar.
accounts (exhaustive) all names of 1..5 components over the five roots x n=0..6: root, parent:leaf,
         account_sortkey order, possign.
strings  (exhaustive) all strings of length <= 4 over {a, B, ' ', :} x all index pairs -6..6: substr;
         splitcomp, upper, lower, length, maxwidth, grep, grepn, subst, findfirst, joinstr.
generated date_add / date_diff / date +- int inverses, date_bin (day, month, year strides, sources on
         both sides of the origin including exact bin starts), interval arithmetic vs relativedelta,
         abs / neg / round / safediv vs Decimal, type casts of every input type: value or NULL, never
         an exception."""
import datetime
import itertools
import re
import textwrap
from decimal import Decimal as D

from dateutil.relativedelta import relativedelta
from hypothesis import strategies as st

from vlib import bql, harness, htables, jsonio, ledgers
from vlib.runner import exc_sig

ID = 'C18'
RULE = ('exhaustive parts: one query per law over complete finite domains (73 414 dates, 155 account names x 7 n, 341 strings '
        'x 169 index pairs); every row is an evaluation, distinct = (law, row). generated part: laws over random dates +- '
        '40 000 days, strides/origins, decimals of <= 12 digits and cast inputs of every type; non-trivial = the law has a '
        'non-NULL result.')
ASSUMPTIONS = ['origins of month/year date_bin have day <= 28 (month arithmetic then has no end-of-month clipping)',
               'Python datetime / re / decimal / textwrap are the definitions of calendar, regex, decimal and wrapping behaviour']

D0, D1 = datetime.date(1900, 1, 1), datetime.date(2100, 12, 31)


def all_dates():
    n = (D1 - D0).days + 1
    return [D0 + datetime.timedelta(days=i) for i in range(n)]


def trunc(unit, d):
    if unit == 'week':
        return d - datetime.timedelta(days=d.weekday())
    if unit == 'month':
        return d.replace(day=1)
    if unit == 'quarter':
        return datetime.date(d.year, 3 * ((d.month - 1) // 3) + 1, 1)
    if unit == 'year':
        return datetime.date(d.year, 1, 1)
    if unit == 'decade':
        return datetime.date(d.year // 10 * 10, 1, 1)
    if unit == 'century':
        return datetime.date((d.year - 1) // 100 * 100 + 1, 1, 1)
    if unit == 'millennium':
        return datetime.date((d.year - 1) // 1000 * 1000 + 1, 1, 1)
    raise ValueError(unit)


PARTS_OF_DATE = {
    'weekday': lambda d: d.weekday(), 'dow': lambda d: d.weekday(),
    'isoweekday': lambda d: d.isoweekday(), 'isodow': lambda d: d.isoweekday(),
    'week': lambda d: d.isocalendar()[1], 'month': lambda d: d.month, 'quarter': lambda d: (d.month + 2) // 3,
    'year': lambda d: d.year, 'isoyear': lambda d: d.isocalendar()[0], 'decade': lambda d: d.year // 10,
    'century': lambda d: (d.year + 99) // 100, 'millennium': lambda d: (d.year + 999) // 1000,
    'epoch': lambda d: (d - datetime.date(1970, 1, 1)).days * 86400,
}
DATE_FUNCS = {
    'year': lambda d: d.year, 'month': lambda d: d.month, 'day': lambda d: d.day,
    'quarter': lambda d: f'{d.year:04d}-Q{(d.month + 2) // 3}',
    'weekday': lambda d: ('Mon', 'Tue', 'Wed', 'Thu', 'Fri', 'Sat', 'Sun')[d.weekday()],
    'yearmonth': lambda d: d.replace(day=1),
}
UNITS = ['week', 'month', 'quarter', 'year', 'decade', 'century', 'millennium']


def date_laws():
    laws = [('trunc', u) for u in UNITS] + [('part', f) for f in PARTS_OF_DATE] + [('func', f) for f in DATE_FUNCS]
    laws += [('trunc-unknown', 'fortnight'), ('part-unknown', 'fortnight')]
    return laws


_DATES = []


def date_table():
    if not _DATES:
        ds = all_dates()
        _DATES.append(htables.HTable('dates', [('d', datetime.date)], [(d,) for d in ds]))
        _DATES.append(ds)
    return _DATES


def prop_dates(sh, case):
    """case = [kind, name]"""
    fails = []
    kind, name = case
    table, ds = date_table()
    conn = htables.connection([table])
    col = ['col', 'd']
    if kind in ('trunc', 'trunc-unknown'):
        e = ['fn', 'date_trunc', [['const', 'str', name], col]]
        sel = bql.select([(e, 'r'), (['fn', 'date_trunc', [['const', 'str', name], e]], 'rr')], ('table', 'dates'))
    elif kind in ('part', 'part-unknown'):
        sel = bql.select([(['fn', 'date_part', [['const', 'str', name], col]], 'r')], ('table', 'dates'))
    else:
        sel = bql.select([(['fn', name, [col]], 'r')], ('table', 'dates'))
    r = harness.engine(conn, bql.to_ast(sel))
    text = bql.statement(sel)
    if r[0] != 'ok':
        return [(exc_sig(r[1], f'dates:{kind}:{name}:raises'), f'{text!r}: {r[1]!r}')]
    rows = r[2]
    if len(rows) != len(ds):
        return [(f'dates:{kind}:{name}:row-count', str(len(rows)))]
    prev = None
    for d, row in zip(ds, rows):
        got = row[0]
        if kind == 'trunc':
            want = trunc(name, d)
            if got != want or type(got) is not datetime.date:
                fails.append((f'dates:trunc:{name}', f"date_trunc('{name}', {d}) = {got!r}, first day of the {name} is {want}"))
                break
            if got > d or row[1] != got or (prev is not None and got < prev):
                fails.append((f'dates:trunc:{name}:law', f"date_trunc('{name}', {d}) = {got}; again = {row[1]}; previous = {prev}"))
                break
            prev = got
        elif kind == 'part':
            want = PARTS_OF_DATE[name](d)
            if got != want or type(got) is not int:
                fails.append((f'dates:part:{name}', f"date_part('{name}', {d}) = {got!r}, calendar says {want}"))
                break
        elif kind == 'func':
            want = DATE_FUNCS[name](d)
            if got != want or type(got) is not type(want):
                fails.append((f'dates:func:{name}', f'{name}({d}) = {got!r}, calendar says {want!r}'))
                break
        else:
            if got is not None:
                fails.append((f'dates:{kind}', f'unknown unit {name!r} gives {got!r} for {d}'))
                break
    sh.record(f'dates|{kind}|{name}', True, {'law': f'{kind}:{name}', 'rows': len(rows), 'exhaustive': '1900-01-01..2100-12-31'},
              n=len(rows))
    sh.count('date_cells', len(rows))
    return fails


# ------------------------------------------------------------------ accounts

ROOTS = ['Assets', 'Liabilities', 'Equity', 'Income', 'Expenses']
CREDIT = {'Liabilities', 'Equity', 'Income'}


def all_accounts():
    out = []
    for root in ROOTS:
        for n in range(5):
            for comps in itertools.product(['Aa', 'Bb'], repeat=n):
                out.append(':'.join((root,) + comps))
    return out


RENAMED = '''
option "name_income" "Revenue"
option "name_expenses" "Income"
option "name_liabilities" "Debts"
2019-01-01 open Assets:Cash
2019-01-01 open Income:Food
2019-01-01 open Revenue:Job
2019-01-01 open Debts:Card
2019-01-02 * "x"
  Income:Food   5.00 USD
  Assets:Cash  -5.00 USD
'''


def renamed_roots(sh):
    """Account types follow each ledger's own options: two ledgers queried in turn in one process."""
    fails = []
    names = ['Assets:Cash', 'Income:Food', 'Revenue:Job', 'Debts:Card', 'Liabilities:Card', 'Expenses:Food', 'Equity:X']
    default_credit = {'Liabilities', 'Equity', 'Income'}
    renamed_credit = {'Debts', 'Equity', 'Revenue'}
    order = {'default': ['Assets', 'Liabilities', 'Equity', 'Income', 'Expenses'], 'renamed': ['Assets', 'Debts', 'Equity', 'Revenue', 'Income']}
    for label, text, credit in (('default', ledgers.SAMPLE, default_credit), ('renamed', RENAMED, renamed_credit),
                                ('default', ledgers.SAMPLE, default_credit)):
        conn = ledgers.connect(text)
        # only names whose root is one of this ledger's five account types are account names here
        valid = [a for a in names if a.split(':')[0] in order[label]]
        conn.tables['names'] = htables.HTable('names', [('a', str), ('x', D)], [(a, D('7')) for a in valid])
        r = harness.engine(conn, harness.parsed('SELECT a, possign(x, a) AS s, account_sortkey(a) AS k FROM #names'))
        if r[0] != 'ok':
            fails.append((exc_sig(r[1], 'accounts:renamed:raises'), repr(r[1])))
            continue
        for a, s, k in r[2]:
            root = a.split(':')[0]
            if root not in order[label]:
                continue
            want = D('-7') if root in credit else D('7')
            if s != want:
                fails.append(('accounts:possign-per-ledger', f'{label} ledger: possign(7, {a!r}) = {s}, want {want}'))
        keyed = sorted((k, a) for a, s, k in r[2] if a.split(':')[0] in order[label])
        want_order = sorted((a for a in names if a.split(':')[0] in order[label]), key=lambda a: (order[label].index(a.split(':')[0]), a))
        if [a for _, a in keyed] != want_order:
            fails.append(('accounts:sortkey-per-ledger', f'{label} ledger: {[a for _, a in keyed]} want {want_order}'))
        sh.record(f'renamed|{label}', True, None, n=len(names))
    return fails


def prop_accounts(sh, case):
    fails = []
    names = all_accounts()
    rows = [(a, n, D('2.50')) for a in names for n in range(7)]
    fails += renamed_roots(sh)
    conn = ledgers.connect(ledgers.SAMPLE)
    conn.tables['names'] = htables.HTable('names', [('a', str), ('n', int), ('x', D)], rows)
    q = ("SELECT a, n, root(a, n) AS r, root(a) AS r1, parent(a) AS p, leaf(a) AS l, account_sortkey(a) AS k, "
         "possign(x, a) AS s, possign(neg(x), a) AS sn FROM #names")
    r = harness.engine(conn, q)
    if r[0] != 'ok':
        return [(exc_sig(r[1], 'accounts:raises'), f'{q!r}: {r[1]!r}')]
    keyed = []
    for (a, n, x), row in zip(rows, r[2]):
        comps = a.split(':')
        _, _, root, root1, parent, leaf, key, sign, signn = row
        if root != ':'.join(comps[:n]):
            fails.append(('accounts:root', f'root({a!r}, {n}) = {root!r}'))
            break
        if root1 != comps[0]:
            fails.append(('accounts:root1', f'root({a!r}) = {root1!r}'))
            break
        if leaf != comps[-1] or (parent or '') != ':'.join(comps[:-1]):
            fails.append(('accounts:parent-leaf', f'{a!r}: parent {parent!r} leaf {leaf!r}'))
            break
        if len(comps) > 1 and f'{parent}:{leaf}' != a:
            fails.append(('accounts:parent-leaf', f'{a!r}: {parent!r}:{leaf!r}'))
            break
        want_sign = -x if comps[0] in CREDIT else x
        if sign != want_sign or signn != -want_sign:
            fails.append(('accounts:possign', f'possign({x}, {a!r}) = {sign!r}'))
            break
        keyed.append((key, a))
    if not fails:
        order = [a for _, a in sorted(set(keyed))]
        want = sorted(set(names), key=lambda a: (ROOTS.index(a.split(':')[0]), a))
        if order != want:
            fails.append(('accounts:sortkey-order', f'{order[:6]!r} ... vs {want[:6]!r}'))
    sh.record('accounts', True, {'law': 'root/parent/leaf/sortkey/possign', 'rows': len(rows), 'exhaustive': True}, n=len(rows))
    sh.count('account_cells', len(rows))
    return fails


def prop_positions(sh, case):
    """possign / neg / abs / units / cost / str / bool over positions and amounts, zero units included."""
    from beancount.core import amount, convert, position
    fails = []
    A, P, C = amount.Amount, position.Position, position.Cost
    cost = C(D('10.00'), 'USD', datetime.date(2019, 1, 15), None)
    positions = [P(A(D('5'), 'HOOL'), cost), P(A(D('-2.50'), 'USD'), None), P(A(D('0'), 'USD'), None), P(A(D('0.00'), 'EUR'), None),
                 P(A(D('0'), 'HOOL'), cost), P(A(D('7'), 'EUR'), None)]
    accounts = ['Assets:Cash', 'Liabilities:Card', 'Equity:Opening', 'Income:Job', 'Expenses:Food']
    rows = [(p, p.units, a) for p in positions for a in accounts]
    conn = ledgers.connect(ledgers.SAMPLE)
    conn.tables['pp'] = htables.HTable('pp', [('p', P), ('u', A), ('a', str)], rows)
    q = ('SELECT possign(p, a) AS s, possign(u, a) AS su, neg(p) AS n, abs(p) AS ab, units(p) AS un, cost(p) AS c, str(p) AS t, '
         'bool(u) AS b, number(u) AS nu, currency(u) AS cu, units(p) IS NULL AS isn, str(u) AS tu FROM #pp')
    r = harness.engine(conn, harness.parsed(q))
    if r[0] != 'ok':
        return [(exc_sig(r[1], 'positions:raises'), repr(r[1]))]
    for (p, u, a), row in zip(rows, r[2]):
        credit = a.split(':')[0] in CREDIT
        want = (-p if credit else p, -u if credit else u, -p, abs(p), convert.get_units(p), convert.get_cost(p), str(p), bool(u),
                u.number, u.currency, False, str(u))
        if any(x is None for x in row) or tuple(row) != want or repr(tuple(row)) != repr(want):
            fails.append(('positions:functions', f'{p} on {a}: got {row!r}, want {want!r}'))
            break
    sh.record('positions', True, {'law': 'position/amount functions', 'rows': len(rows)}, n=len(rows))
    return fails


# ------------------------------------------------------------------ strings

ALPHABET = 'aB :'
PATTERNS = ['a', 'B', 'a+', '^a', 'a$', '(a)(B)?', '[aB]+', ' ', ':', '(:)', 'a|B', '(a*)(B*)', '.', '']


def all_strings():
    out = []
    for n in range(5):
        out += [''.join(p) for p in itertools.product(ALPHABET, repeat=n)]
    return out


def prop_strings(sh, case):
    """case = the name of one string law"""
    fails = []
    law = case
    strings = all_strings()
    ints = list(range(-6, 7))
    conn = htables.connection([])
    if law == 'substr':
        rows = [(s, a, b) for s in strings for a in ints for b in ints]
        conn.tables['s'] = htables.HTable('s', [('s', str), ('a', int), ('b', int)], rows)
        r = harness.engine(conn, 'SELECT substr(s, a, b) AS r, upper(s) AS u, lower(s) AS l, length(s) AS n FROM #s')
        if r[0] != 'ok':
            return [(exc_sig(r[1], 'strings:substr:raises'), repr(r[1]))]
        for (s, a, b), row in zip(rows, r[2]):
            if row != (s[a:b], s.upper(), s.lower(), len(s)):
                fails.append(('strings:substr-upper-lower-length', f'{s!r} {a} {b}: {row!r}'))
                break
    elif law == 'splitcomp':
        rows = [(s, d, i) for s in strings for d in (':', ' ', 'a', 'B:') for i in range(-3, 4)]
        conn.tables['s'] = htables.HTable('s', [('s', str), ('d', str), ('i', int)], rows)
        # one row per query position would abort on the first IndexError: evaluate in range rows only
        valid = [(s, d, i) for s, d, i in rows if -len(s.split(d)) <= i < len(s.split(d))]
        conn.tables['s'] = htables.HTable('s', [('s', str), ('d', str), ('i', int)], valid)
        r = harness.engine(conn, 'SELECT splitcomp(s, d, i) AS r FROM #s')
        if r[0] != 'ok':
            return [(exc_sig(r[1], 'strings:splitcomp:raises'), repr(r[1]))]
        rows = valid
        for (s, d, i), row in zip(rows, r[2]):
            if row[0] != s.split(d)[i]:
                fails.append(('strings:splitcomp', f'splitcomp({s!r}, {d!r}, {i}) = {row[0]!r}, want {s.split(d)[i]!r}'))
                break
    elif law == 'maxwidth':
        words = strings + ['a B a B a B', 'aaaa BBBB aaaa BBBB', 'a' * 30, 'a  B   :', ' a ']
        rows = [(s, n) for s in words for n in range(5, 12)]
        conn.tables['s'] = htables.HTable('s', [('s', str), ('n', int)], rows)
        r = harness.engine(conn, 'SELECT maxwidth(s, n) AS r FROM #s')
        if r[0] != 'ok':
            return [(exc_sig(r[1], 'strings:maxwidth:raises'), repr(r[1]))]
        for (s, n), row in zip(rows, r[2]):
            norm = ' '.join(s.split())
            got = row[0]
            ok = got == norm if len(norm) <= n else (len(got) <= n and got.endswith('[...]') and norm.startswith(got[:-5].rstrip()))
            if not ok or got != textwrap.shorten(s, width=n):
                fails.append(('strings:maxwidth', f'maxwidth({s!r}, {n}) = {got!r}'))
                break
    elif law in ('grep', 'grepn', 'subst'):
        rows = [(p, s) for p in PATTERNS for s in strings]
        conn.tables['s'] = htables.HTable('s', [('p', str), ('s', str)], rows)
        if law == 'grep':
            r = harness.engine(conn, 'SELECT grep(p, s) AS r, grepn(p, s, 0) AS r0 FROM #s')
        elif law == 'grepn':
            rows = [(p, s) for p in ('(a)(B)?', '(:)', '(a*)(B*)') for s in strings]
            conn.tables['s'] = htables.HTable('s', [('p', str), ('s', str)], rows)
            r = harness.engine(conn, 'SELECT grepn(p, s, 1) AS r, grepn(p, s, 0) AS r0 FROM #s')
        else:
            r = harness.engine(conn, "SELECT subst(p, 'x', s) AS r, subst(p, '', s) AS r0 FROM #s")
        if r[0] != 'ok':
            return [(exc_sig(r[1], f'strings:{law}:raises'), repr(r[1]))]
        for (p, s), row in zip(rows, r[2]):
            m = re.search(p, s)
            if law == 'grep':
                want = (m.group(0) if m else None, m.group(0) if m else None)
            elif law == 'grepn':
                want = (m.group(1) if m else None, m.group(0) if m else None)
            else:
                want = (re.sub(p, 'x', s), re.sub(p, '', s))
            if row != want:
                fails.append((f'strings:{law}', f'{law}({p!r}, {s!r}) = {row!r}, want {want!r}'))
                break
    elif law == 'sets':
        items = ['a', 'B', 'aB', 'a:B', ':', '']
        sets = [frozenset(c) for n in range(4) for c in itertools.combinations(items, n)]
        rows = [(p, set(s)) for p in PATTERNS for s in sets]
        conn.tables['s'] = htables.HTable('s', [('p', str), ('v', set)], rows)
        r = harness.engine(conn, 'SELECT findfirst(p, v) AS r, joinstr(v) AS j, length(v) AS n FROM #s')
        if r[0] != 'ok':
            return [(exc_sig(r[1], 'strings:sets:raises'), repr(r[1]))]
        for (p, v), row in zip(rows, r[2]):
            first = next((x for x in sorted(v) if re.match(p, x)), None)
            if row[0] != first:
                fails.append(('strings:findfirst', f'findfirst({p!r}, {sorted(v)!r}) = {row[0]!r}, want {first!r}'))
                break
            if sorted(row[1].split(',')) != sorted(','.join(v).split(',')) or len(row[1]) != len(','.join(v)) or row[2] != len(v):
                fails.append(('strings:joinstr-length', f'joinstr({sorted(v)!r}) = {row[1]!r}, length {row[2]}'))
                break
    sh.record(f'strings|{law}', True, {'law': law, 'rows': len(rows), 'exhaustive': True}, n=len(rows))
    sh.count('string_cells', len(rows))
    return fails


STRING_LAWS = ['substr', 'splitcomp', 'maxwidth', 'grep', 'grepn', 'subst', 'sets']


# ------------------------------------------------------------------ generated laws

DATES = st.dates(datetime.date(1800, 1, 1), datetime.date(2200, 12, 31))


@st.composite
def arith_case(draw):
    return {'d': draw(DATES), 'e': draw(DATES), 'n': draw(st.integers(-40000, 40000)),
            'x': draw(st.builds(lambda m, e: D(m).scaleb(-e), st.integers(-10**12, 10**12), st.integers(0, 6))),
            'y': draw(st.builds(lambda m, e: D(m).scaleb(-e), st.integers(-10**6, 10**6), st.integers(0, 3))),
            'k': draw(st.integers(-3, 8)), 'i': draw(st.integers(-10**9, 10**9))}


def prop_arith(sh, case):
    fails = []
    d, e, n, x, y, k, i = (case[c] for c in 'denxyki')
    t = {'name': 't', 'cols': [('d', 'date'), ('e', 'date'), ('n', 'int'), ('x', 'decimal'), ('y', 'decimal'), ('k', 'int'), ('i', 'int')],
         'rows': [(d, e, n, x, y, k, i)]}
    conn, _ = harness.connect([t])
    q = ('SELECT date_add(d, n) AS a, date_diff(date_add(d, n), d) AS b, d + n AS c, n + d AS c2, (d + n) - n AS c3, d - n AS c4, '
         '(d + n) - d AS c5, date_diff(d, e) AS f, d - e AS g, date_add(e, date_diff(d, e)) AS h, '
         'abs(x) AS ax, neg(x) AS nx, -x AS mx, round(x) AS r0, round(x, k) AS rk, safediv(x, y) AS sd, safediv(x, n) AS sn, '
         'safediv(x, 0) AS s0, round(i, k) AS ri, round(i) AS ri0, abs(neg(x)) AS anx FROM #t')
    r = harness.engine(conn, harness.parsed(q))
    if r[0] != 'ok':
        return [(exc_sig(r[1], 'arith:raises'), f'{case!r}: {r[1]!r}')]
    got = dict(zip([c.name for c in r[1]], r[2][0]))
    dn = d + datetime.timedelta(days=n)
    want = {'a': dn, 'b': n, 'c': dn, 'c2': dn, 'c3': d, 'c4': d - datetime.timedelta(days=n), 'c5': n,
            'f': (d - e).days, 'g': (d - e).days, 'h': d, 'ax': abs(x), 'nx': -x, 'mx': -x, 'r0': round(x, 0), 'rk': round(x, k),
            'sd': D(0) if y == 0 else x / y, 'sn': D(0) if n == 0 else x / n, 's0': D(0), 'ri': round(i, k), 'ri0': i, 'anx': abs(x)}
    for key, w in want.items():
        if got[key] != w or type(got[key]) is not type(w):
            fails.append((f'arith:{key}', f'{case!r}: {key} = {got[key]!r}, want {w!r}'))
    sh.record(jsonio.case_hash(case), True, {'case': jsonio.short(case)} if len(sh.samples) < 3 else None)
    return fails


@st.composite
def bin_case(draw):
    unit = draw(st.sampled_from(['day', 'day', 'month', 'month', 'year']))
    count = draw(st.integers(1, 40) if unit == 'day' else st.integers(1, 14) if unit == 'month' else st.integers(1, 5))
    origin = draw(st.dates(datetime.date(1990, 1, 1), datetime.date(2030, 12, 28))).replace(day=draw(st.integers(1, 28)))
    k = draw(st.integers(-60, 60))
    stride = relativedelta(**{unit + 's': count})
    start = origin + stride * k
    offset = draw(st.sampled_from([0, 0, 1, -1, 2, 15, 27]) if unit != 'day' else st.integers(-3, 45))
    source = start + datetime.timedelta(days=offset)
    spelled = f'{count} {unit}' + ('s' if draw(st.booleans()) else '')
    return {'stride': spelled, 'unit': unit, 'count': count, 'origin': origin, 'source': source,
            'as_interval': draw(st.booleans())}


def prop_bin(sh, case):
    fails = []
    stride = relativedelta(**{case['unit'] + 's': case['count']})
    origin, source = case['origin'], case['source']
    t = {'name': 't', 'cols': [('s', 'date'), ('o', 'date'), ('w', 'str')], 'rows': [(source, origin, case['stride'])]}
    conn, _ = harness.connect([t])
    arg = 'interval(w)' if case['as_interval'] else 'w'
    q = f'SELECT date_bin({arg}, s, o) AS r, s + interval(w) AS plus, s - interval(w) AS minus, interval(w) + s AS plus2 FROM #t'
    r = harness.engine(conn, harness.parsed(q))
    if r[0] != 'ok':
        return [(exc_sig(r[1], 'bin:raises'), f'{case!r}: {r[1]!r}')]
    got, plus, minus, plus2 = r[2][0]
    # the bin start is origin + k * stride with r <= source < r + stride
    k = 0
    if source >= origin:
        while origin + stride * (k + 1) <= source:
            k += 1
    else:
        while origin + stride * k > source:
            k -= 1
    want = origin + stride * k
    if got != want:
        fails.append((f"bin:{case['unit']}", f"date_bin('{case['stride']}', {source}, {origin}) = {got!r}; the bin containing "
                      f'the date starts at {want} (origin + {k} x stride), next at {origin + stride * (k + 1)}'))
    if plus != source + stride or minus != source - stride or plus2 != source + stride:
        fails.append(('interval-arithmetic', f'{source} +- interval({case["stride"]!r}) = {plus!r}, {minus!r}, {plus2!r}'))
    exact = source == want
    sh.count('bin:exact_start' if exact else 'bin:inside')
    sh.record(jsonio.case_hash(case), True, {'case': jsonio.short(case)} if exact and len(sh.samples) < 3 else None)
    return fails


CAST_INPUTS = [
    0, 1, -7, 10**20, -10**20, 2**63, True, False, D('0'), D('1.5'), D('-2.999'), D('1E+30'), D('1E-30'), D('NaN'), D('Infinity'),
    D('-Infinity'), D('sNaN'), '', ' ', '1', ' 12 ', '-3', '+4', '1.5', '1e3', '1E+400', 'Infinity', '-inf', 'NaN', 'nan', 'abc', '0x10', '१२',
    '2020-01-02', '2020-1-2', '2020-13-45', '0000-01-01', '99999-01-01', '2020-02-30', '20200102', 'TRUE', 'false', '1_000', '９',
    datetime.date(2020, 2, 29), datetime.date(1, 1, 1), datetime.date(9999, 12, 31), None,
]
YMD = [(2020, 2, 29), (2021, 2, 29), (0, 1, 1), (1, 1, 1), (9999, 12, 31), (10000, 1, 1), (2020, 0, 1), (2020, 13, 1), (2020, 1, 0),
       (2020, 1, 32), (-1, 1, 1), (10**20, 1, 1), (2020, 10**20, 1), (2020, 1, 10**20), (2020, -1, -1), (2**31, 1, 1)]


def py_int(v):
    try:
        return int(v)
    except (ValueError, TypeError, OverflowError):
        return None


def py_decimal(v):
    import decimal
    try:
        return D(v)
    except (ValueError, TypeError, decimal.InvalidOperation):
        return None


def py_date(v):
    if isinstance(v, datetime.date):
        return v
    if isinstance(v, str):
        try:
            return datetime.datetime.strptime(v, '%Y-%m-%d').date()
        except ValueError:
            return None
    return None


def same(a, b):
    if isinstance(a, D) and isinstance(b, D) and (a.is_nan() or b.is_nan()):
        return a.is_nan() and b.is_nan()
    return type(a) is type(b) and a == b


def prop_casts(sh, case):
    """Every cast over every input type: the converted value or NULL, never an exception."""
    fails = []
    type_of = {int: 'int', bool: 'bool', D: 'decimal', str: 'str', datetime.date: 'date'}
    casts = {'int': py_int, 'decimal': py_decimal, 'date': py_date, 'bool': bool,
             'str': lambda v: 'TRUE' if v is True else 'FALSE' if v is False else str(v)}
    accepted = {'int': ('int', 'bool', 'decimal', 'str', 'object'), 'decimal': ('decimal', 'int', 'bool', 'str', 'object'),
                'date': ('date', 'str', 'object'), 'bool': None, 'str': None}
    for v in CAST_INPUTS:
        for fn, impl in casts.items():
            typed = type_of.get(type(v))
            for coltype in {typed, 'object'} - {None}:
                if accepted[fn] is not None and coltype not in accepted[fn]:
                    continue
                t = {'name': 't', 'cols': [('v', coltype)], 'rows': [(v,)]}
                conn, _ = harness.connect([t])
                q = f'SELECT {fn}(v) AS r FROM #t'
                r = harness.engine(conn, harness.parsed(q))
                label = f'{fn}({v!r} as {coltype})'
                if r[0] != 'ok':
                    fails.append((f'casts:{fn}:raises:{type(r[1]).__name__}', f'{label}: {r[1]!r}'))
                    continue
                got = r[2][0][0]
                want = None if v is None else impl(v)
                if not (got is None and want is None) and not same(got, want):
                    fails.append((f'casts:{fn}:value', f'{label} = {got!r}, want {want!r}'))
                sh.record(f'cast|{label}', want is not None, {'cast': label, 'result': repr(got)} if len(sh.samples) < 6 else None)
    for y, m, d in YMD:
        t = {'name': 't', 'cols': [('y', 'int'), ('m', 'int'), ('d', 'int')], 'rows': [(y, m, d)]}
        conn, _ = harness.connect([t])
        r = harness.engine(conn, harness.parsed('SELECT date(y, m, d) AS r FROM #t'))
        label = f'date({y}, {m}, {d})'
        try:
            want = datetime.date(y, m, d)
        except (ValueError, OverflowError):
            want = None
        if r[0] != 'ok':
            fails.append((f'casts:date-ymd:raises:{type(r[1]).__name__}', f'{label}: {r[1]!r}'))
        elif r[2][0][0] != want:
            fails.append(('casts:date-ymd:value', f'{label} = {r[2][0][0]!r}, want {want!r}'))
        sh.record(f'cast|{label}', want is not None)
    return fails


PARTS = {'positions': prop_positions, 'dates': prop_dates, 'accounts': prop_accounts, 'strings': prop_strings, 'arith': prop_arith, 'bin': prop_bin,
         'casts': prop_casts}


def run(sh):
    work = [('dates', law) for law in date_laws()] + [('accounts', None), ('positions', None)] + [('strings', law) for law in STRING_LAWS] + [('casts', None)]
    for part, case in sh.mine(work):
        case = list(case) if isinstance(case, tuple) else case
        for sig, detail in PARTS[part](sh, case):
            sh.fail(sig, detail, case, part)
    sh.extra['exhaustive'] = True
    sh.search('arith', arith_case(), prop_arith, quick=30000, thorough=600000)
    sh.search('bin', bin_case(), prop_bin, quick=30000, thorough=600000)
