"""C14 - BALANCES / JOURNAL / PRINT equal their SELECT expansions; PRINT is lossless.

balances : BALANCES [AT f] [FROM ..] [WHERE ..] vs (a) the explicit SELECT account, sum(f(position))
           .. GROUP BY account ORDER BY account_sortkey(account) and (b) per-account sums computed by a
           direct traversal, ordered by account type then name.
journal  : JOURNAL [pattern] [AT f] [FROM ..] vs (a) the explicit register SELECT and (b) a direct
           traversal with prefix-sum balance.
print    : PRINT [FROM expr] emits exactly the directives satisfying the expression (Python twin),
           in ledger order; PRINT of the whole ledger loads back to equal directives."""
import datetime
import io
import re
import textwrap
from decimal import Decimal as D

from hypothesis import strategies as st

from beancount import loader
from beancount.core import compare, convert, data, inventory, position
from beancount.parser import options as boptions
from beancount.parser import parser as bparser
from beanquery import query_execute
from beanquery.parser import ast as A

from checks.c12 import FROM_PREDICATES, PREDICATES, combine_ir, combine_py, pred_ir, pred_py
from vlib import bql, harness, jsonio, ledgergen, ledgers
from vlib.runner import exc_sig

ID = 'C14'
RULE = ('ledger (1..10 transactions plus price/note/event/document/query/custom directives, no pad) + statement: BALANCES '
        'with summary function none/units/cost, optional FROM predicate (optionally with CLOSE/CLEAR qualifiers) and WHERE '
        'predicates; JOURNAL with account pattern (fragments, anchors, alternation, character classes, a double quote) and '
        'summary function; PRINT with entry-level predicates over every directive type. Non-trivial = BALANCES result with '
        '>= 3 accounts of >= 2 types / JOURNAL register with >= 3 rows / PRINT output with >= 3 directive types. Distinct '
        'by hash of (ledger text, statement).')
ASSUMPTIONS = ['with OPEN/CLOSE/CLEAR qualifiers only the explicit-SELECT oracle applies (C13 covers their semantics)',
               'PRINT round trip through the loader is checked on whole ledgers (partial output need not book on its own); '
               'filtered output is compared directive by directive after parsing',
               'ledgers contain no pad directives in the round trip (re-loading re-runs the pad plugin)']

SUMMARY = [None, 'units', 'cost']
PATTERNS = ['Bank', 'Broker', '^Assets', 'Food$', 'Card|Loan', 'Expenses:Food', 'checking', '[BC]', 'Income:.*', '', '.',
            'Sub', 'Nope', 'a"b', r'Bank:\w+$', r'^\w+:Food\b', r'Assets\b', r'\bFood', r'Loan:\w', r'Broker(:|$)', r'\.']
ENTRY_PREDICATES = st.one_of(
    st.tuples(st.just('type='), st.sampled_from(['transaction', 'open', 'close', 'price', 'note', 'event', 'document', 'query',
                                                 'custom', 'commodity'])),
    st.tuples(st.just('month='), st.integers(1, 4)),
    st.tuples(st.just('flag='), st.sampled_from(['*', '!'])),
    st.tuples(st.just('date>='), st.dates(datetime.date(2018, 12, 31), datetime.date(2019, 6, 30))),
    st.tuples(st.just('narration~'), st.sampled_from(['T1', 'salary', 'misc|groceries'])),
    st.tuples(st.just('has_account'), st.sampled_from(['Food', 'Broker', 'Income'])),
    st.tuples(st.just('tag'), st.sampled_from(['trip', 'food', 'work'])),
    st.tuples(st.just('typein'), st.just(['transaction', 'price', 'note'])),
    st.tuples(st.just('tagsnull'), st.booleans()),
    st.tuples(st.just('linksnull'), st.booleans()),
)


def entry_ir(p):
    k, v = p
    if k == 'type=':
        return ['eq', ['col', 'type'], ['const', 'str', v]]
    if k == 'typein':
        return ['in', ['col', 'type'], ['list', [['const', 'str', x] for x in v]]]
    if k == 'narration~':
        return ['match', ['col', 'narration'], ['const', 'str', v]]
    if k in ('tagsnull', 'linksnull'):
        return ['isnull' if v else 'isnotnull', ['col', k[:-4]]]
    return pred_ir(p)


def entry_py(p, e):
    k, v = p
    txn = isinstance(e, data.Transaction)
    if k == 'type=':
        return type(e).__name__.lower() == v
    if k == 'typein':
        return type(e).__name__.lower() in v
    if k == 'month=':
        return e.date.month == v
    if k == 'date>=':
        return e.date >= v
    if k == 'flag=':
        return txn and e.flag == v
    if k == 'narration~':
        return txn and re.search(v, e.narration, re.IGNORECASE) is not None
    if k == 'has_account':
        from beancount.core import getters
        return any(re.search(v, a, re.IGNORECASE) for a in getters.get_entry_accounts(e))
    if k == 'tag':
        return txn and v in (e.tags or ())
    if k in ('tagsnull', 'linksnull'):
        # only transactions have tags and links in the entries table
        return (not txn) == v
    raise ValueError(k)


@st.composite
def statement_case(draw):
    desc = draw(ledgergen.ledgers(max_txns=10, with_pad=False))
    kind = draw(st.sampled_from(['balances', 'balances', 'journal', 'journal', 'print', 'print']))
    stmt = {'kind': kind, 'at': draw(st.sampled_from(SUMMARY)), 'from': None, 'qual': None, 'where': [], 'op': 'and'}
    if kind == 'balances':
        stmt['from'] = draw(st.none() | FROM_PREDICATES)
        stmt['where'] = draw(st.lists(PREDICATES, max_size=2))
        stmt['op'] = draw(st.sampled_from(['and', 'or']))
        stmt['qual'] = draw(st.sampled_from([None, None, None, 'CLOSE', 'CLEAR', 'CLOSE CLEAR']))
    elif kind == 'journal':
        stmt['account'] = draw(st.none() | st.sampled_from(PATTERNS))
        stmt['from'] = draw(st.none() | FROM_PREDICATES)
        stmt['qual'] = draw(st.sampled_from([None, None, None, 'CLOSE', 'CLEAR']))
    else:
        stmt['from'] = draw(st.none() | ENTRY_PREDICATES)
        stmt['at'] = None
    if kind == 'print':
        stmt['qual'] = draw(st.sampled_from([None, None, 'CLOSE', 'CLEAR', 'CLOSE CLEAR'])) if stmt['from'] is None or draw(st.booleans()) else None
    # a statement of the same family executed just before on the same connection must not matter
    prev = draw(st.none() | st.fixed_dictionaries({'account': st.sampled_from(['Bank', 'Food', 'Broker']),
                                                   'at': st.sampled_from(SUMMARY)}))
    return {'text': ledgergen.render(desc), 'stmt': stmt, 'prev': prev}


def from_node(stmt, ir_fn=pred_ir):
    if stmt['from'] is None and not stmt['qual']:
        return None
    e = None if stmt['from'] is None else bql.to_ast(bql.select([(ir_fn(stmt['from']), 'x')])).targets[0].expression
    qual = stmt['qual'] or ''
    return A.From(e, None, True if 'CLOSE' in qual else None, True if 'CLEAR' in qual else None)


def where_node(stmt):
    if not stmt['where']:
        return None
    return bql.to_ast(bql.select([(combine_ir(stmt['where'], stmt['op']), 'x')])).targets[0].expression


def summary(f, pos):
    if f == 'units':
        return pos.units
    if f == 'cost':
        return convert.get_cost(pos)
    return pos


def inv_add(inv, f, pos):
    v = summary(f, pos)
    if isinstance(v, position.Position):
        inv.add_position(v)
    else:
        inv.add_amount(v)


def prop_statement(sh, case):
    fails = []
    entries, errors, options = ledgers.load(case['text'])
    if errors:
        # a ledger the generator got wrong is discarded and counted, never reported
        sh.count('discarded_ledger_with_load_errors')
        sh.record(None, False)
        return []
    conn = ledgers.connect_entries(entries, options)
    stmt = case['stmt']
    kind, f = stmt['kind'], stmt['at']
    postings = [(e, p) for e in entries if isinstance(e, data.Transaction) for p in e.postings]
    nontrivial = False
    fcall = (lambda x: ['fn', f, [x]]) if f else (lambda x: x)
    if case.get('prev'):
        harness.engine(conn, A.Journal(case['prev']['account'], case['prev']['at'], None))
        harness.engine(conn, A.Balances(case['prev']['at'], None, A.Match(A.Column('account'), A.Constant(case['prev']['account']))))

    if kind == 'balances':
        node = A.Balances(f, from_node(stmt), where_node(stmt))
        r = harness.engine(conn, node)
        if r[0] != 'ok':
            return [(exc_sig(r[1], 'balances:raises'), f'{stmt!r}: {r[1]!r}')]
        # (a) explicit SELECT
        sel = A.Select([A.Target(A.Column('account'), None),
                        A.Target(A.Function('sum', [bql.to_ast(bql.select([(fcall(['col', 'position']), 'x')])).targets[0].expression]), 's')],
                       from_node(stmt), where_node(stmt),
                       A.GroupBy([A.Column('account'), A.Function('account_sortkey', [A.Column('account')])], None),
                       [A.OrderBy(A.Function('account_sortkey', [A.Column('account')]), A.Ordering.ASC)], None, None, None)
        rs = harness.engine(conn, sel)
        if rs[0] != 'ok':
            fails.append((exc_sig(rs[1], 'balances:select-raises'), f'{stmt!r}: {rs[1]!r}'))
        elif rs[2] != r[2]:
            fails.append(('balances:differs-from-select', f'{stmt!r}\n BALANCES {r[2]!r}\n SELECT   {rs[2]!r}'))
        if len(r[1]) != 2 or r[1][0].name != 'account':
            fails.append(('balances:description', repr(r[1])))
        # (b) direct traversal (no qualifiers)
        if not stmt['qual']:
            sums = {}
            for e, p in postings:
                if stmt['from'] is not None and not pred_py(stmt['from'], e, p):
                    continue
                if stmt['where'] and not combine_py(stmt['where'], stmt['op'], e, p):
                    continue
                inv_add(sums.setdefault(p.account, inventory.Inventory()), f, position.Position(p.units, p.cost))
            atypes = boptions.get_account_types(options)
            order = [atypes.assets, atypes.liabilities, atypes.equity, atypes.income, atypes.expenses]
            want = sorted(sums.items(), key=lambda kv: (order.index(kv[0].split(':')[0]), kv[0]))
            if [tuple(x) for x in r[2]] != want:
                fails.append(('balances:differs-from-traversal', f'{stmt!r}\n got  {r[2]!r}\n want {want!r}'))
        nontrivial = len(r[2]) >= 3 and len({a.split(':')[0] for a, _ in r[2]}) >= 2
    elif kind == 'journal':
        node = A.Journal(stmt['account'], f, from_node(stmt))
        r = harness.engine(conn, node)
        if r[0] != 'ok':
            sig = 'journal:raises-on-pattern-with-double-quote' if stmt['account'] and '"' in stmt['account'] else exc_sig(r[1], 'journal:raises')
            return [(sig, f'{stmt!r}: {r[1]!r}')]
        col = A.Column
        where = None
        if stmt['account']:
            where = A.Match(col('account'), A.Constant(stmt['account']))
        fa = (lambda x: A.Function(f, [x])) if f else (lambda x: x)
        sel = A.Select([A.Target(col('date'), None), A.Target(col('flag'), None),
                        A.Target(A.Function('maxwidth', [col('payee'), A.Constant(48)]), 'p'),
                        A.Target(A.Function('maxwidth', [col('narration'), A.Constant(80)]), 'n'),
                        A.Target(col('account'), None), A.Target(fa(col('position')), 'pos'), A.Target(fa(col('balance')), 'bal')],
                       from_node(stmt), where, None, None, None, None, None)
        rs = harness.engine(conn, sel)
        if rs[0] != 'ok':
            fails.append((exc_sig(rs[1], 'journal:select-raises'), f'{stmt!r}: {rs[1]!r}'))
        elif rs[2] != r[2]:
            fails.append(('journal:differs-from-select', f'{stmt!r}\n JOURNAL {r[2][:3]!r}\n SELECT  {rs[2][:3]!r}'))
        if len(r[1]) != 7 or [d.name for d in r[1]][:2] != ['date', 'flag'] or r[1][4].name != 'account':
            fails.append(('journal:description', repr(r[1])))
        if not stmt['qual']:
            want = []
            running = inventory.Inventory()
            for e, p in postings:
                if stmt['from'] is not None and not pred_py(stmt['from'], e, p):
                    continue
                if stmt['account'] and not re.search(stmt['account'], p.account, re.IGNORECASE):
                    continue
                pos = position.Position(p.units, p.cost)
                running.add_position(pos)
                bal = inventory.Inventory(running.get_positions())
                if f == 'units':
                    bal = bal.reduce(convert.get_units)
                elif f == 'cost':
                    bal = bal.reduce(convert.get_cost)
                want.append((e.date, e.flag, None if e.payee is None else textwrap.shorten(e.payee, width=48),
                             textwrap.shorten(e.narration, width=80), p.account, summary(f, pos), bal))
            if [tuple(x) for x in r[2]] != want:
                fails.append(('journal:differs-from-traversal', f'{stmt!r}\n got  {r[2][:3]!r}\n want {want[:3]!r}'))
        nontrivial = len(r[2]) >= 3
    else:
        node = A.Print(from_node(stmt, entry_ir))
        try:
            out = io.StringIO()
            query_execute.execute_print(conn.compile(node), out)
            printed = out.getvalue()
        except Exception as exc:  # noqa: BLE001
            return [(exc_sig(exc, 'print:raises'), f'{stmt!r}: {exc!r}')]
        parsed, perrors, _ = bparser.parse_string(printed)
        if stmt['qual']:
            # with qualifiers: the transactions printed are those the postings table shows for the same FROM clause
            rs = harness.engine(conn, A.Select([A.Target(A.Column('entry'), None)], from_node(stmt, entry_ir), None, None, None, None, None, None))
            if rs[0] != 'ok':
                return [(exc_sig(rs[1], 'print:select-raises'), f'{stmt!r}: {rs[1]!r}')]
            seen = {}
            for (t,) in rs[2]:
                seen[id(t)] = t
            got_t = [(t.date, t.flag, t.narration) for t in parsed if isinstance(t, data.Transaction)]
            want_t = [(t.date, t.flag, t.narration) for t in seen.values()]
            if got_t != want_t:
                fails.append(('print:qualified-transactions', f'{stmt!r}\n printed {got_t[:5]!r}\n SELECT  {want_t[:5]!r}'))
            sh.count('print:qual')
            sh.record(jsonio.case_hash(case), len(want_t) >= 2, {'statement': jsonio.short(stmt)})
            return fails
        want = [e for e in entries if stmt['from'] is None or entry_py(stmt['from'], e)]
        if perrors:
            fails.append(('print:output-does-not-parse', f'{stmt!r}: {perrors[:2]!r}'))
        sig_of = lambda e: (type(e).__name__, e.date) + entry_signature(e)  # noqa: E731
        if [sig_of(e) for e in parsed] != [sig_of(e) for e in want]:
            fails.append(('print:directives', f'{stmt!r}\n printed {[sig_of(e)[:3] for e in parsed][:6]!r}\n wanted  {[sig_of(e)[:3] for e in want][:6]!r}'))
        if stmt['from'] is None:
            reloaded, rerrors, _ = loader.load_string(printed)
            # multiset comparison by content hash (identical directives may legitimately occur twice)
            from beancount.core.compare import hash_entry
            import collections
            h1 = collections.Counter(hash_entry(e, True) for e in entries)
            h2 = collections.Counter(hash_entry(e, True) for e in reloaded)
            if h1 != h2:
                lost = [e for e in entries if h2[hash_entry(e, True)] < h1[hash_entry(e, True)]]
                invented = [e for e in reloaded if h1[hash_entry(e, True)] < h2[hash_entry(e, True)]]
                fails.append(('print:round-trip', f'{len(lost)} directives lost, {len(invented)} invented: {lost[:1]!r} {invented[:1]!r}'))
        nontrivial = len({type(e).__name__ for e in want}) >= 3
    sh.count(f'{kind}:' + ('qual' if stmt['qual'] else 'plain'))
    sh.record(jsonio.case_hash(case), nontrivial, {'statement': jsonio.short(stmt)} if nontrivial else None, n=2)
    return fails


def entry_signature(e):
    if isinstance(e, data.Transaction):
        ps = tuple((p.account, p.units, None if p.cost is None else (p.cost.number if hasattr(p.cost, 'number') else p.cost.number_per,
                                                                   p.cost.currency), p.price, p.flag) for p in e.postings)
        return (e.flag, e.payee, e.narration, frozenset(e.tags or ()), frozenset(e.links or ()), ps, clean_meta(e.meta),
                tuple(clean_meta(p.meta) for p in e.postings))
    if isinstance(e, data.Open):
        return (e.account, tuple(e.currencies or ()), clean_meta(e.meta))
    if isinstance(e, data.Close):
        return (e.account,)
    if isinstance(e, data.Commodity):
        return (e.currency, clean_meta(e.meta))
    if isinstance(e, data.Price):
        return (e.currency, e.amount, clean_meta(e.meta))
    if isinstance(e, data.Note):
        return (e.account, e.comment, clean_meta(e.meta))
    if isinstance(e, data.Event):
        return (e.type, e.description)
    if isinstance(e, data.Document):
        return (e.account, e.filename)
    if isinstance(e, data.Query):
        return (e.name, e.query_string)
    if isinstance(e, data.Custom):
        return (e.type, tuple(v.value for v in e.values))
    if isinstance(e, data.Balance):
        return (e.account, e.amount)
    return ()


def clean_meta(meta):
    if not meta:
        return ()
    return tuple(sorted((k, repr(v)) for k, v in meta.items() if k not in ('filename', 'lineno') and not k.startswith('__')))


PARTS = {'statement': prop_statement}


def run(sh):
    sh.search('statement', statement_case(), prop_statement, quick=2400, thorough=80000)
