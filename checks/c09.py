"""C09 - parameters, constant folding and history independence of execution.

params  : a generated statement in which a random subset of constants (all literal types, lists,
          inside subqueries / WHERE / GROUP BY / ORDER BY expressions) is replaced by %s (bound in
          textual order) or %(name)s placeholders (with repeated names); executed with the values
          and compared with the literal statement (engine vs engine) and the reference model.
folding : a constant expression E(c1..cn) vs E(col1..coln) over a one-row table holding the same
          constants: same value and datatype (and equal to the reference model).
history : operation sequences on one connection (harness tables, and a Beancount ledger): execute
          text, execute a parsed statement again with other parameters, executemany, unrelated
          statements in between, fetches.  After every execution the result must equal that of the
          same statement and parameters on a fresh connection; the source data must not change."""
import pickle
import re

from decimal import Decimal as D
from hypothesis import strategies as st

import beanquery
import beanquery.parser

from vlib import bql, gen, harness, jsonio, ledgers, refmodel
from vlib.runner import exc_sig

ID = 'C09'
RULE = ('params: small typed statement (aggregate or not, optional subquery) with k >= 1 constants replaced by placeholders; '
        'non-trivial = >= 2 placeholders of which two sit under a non-commutative operator/function or in different clauses. '
        'folding: typed expression of depth <= 4 over a one-row table; non-trivial = >= 2 operators and a non-NULL result. '
        'history: 2..12 operations over a pool of 2..4 statements; non-trivial = a parsed statement executed >= 2 times '
        'with different parameters and another statement executed in between. Distinct by hash of the case.')
ASSUMPTIONS = ['parameter strings are expressible as BQL literals (no string with both quote characters)',
               'histories run in one thread; concurrency is C20']


# ------------------------------------------------------------------ params

def rebuild(sel, fn):
    """A copy of statement `sel` with fn applied to every replaceable constant (top-down)."""
    def ex(e):
        k = e[0]
        if k in ('const', 'list') or (k == 'neg' and e[1][0] == 'const'):
            return fn(e)
        if k == 'subq':
            return ['subq', st_(e[1])]
        if k in ('and', 'or'):
            return [k, [ex(a) for a in e[1]]]
        if k == 'fn':
            return ['fn', e[1], [a if a[0] == 'star' else ex(a) for a in e[2]]]
        if k in ('col', 'ph', 'star'):
            return e
        return [k] + [ex(x) if isinstance(x, list) else x for x in e[1:]]

    def st_(s):
        out = dict(s)
        if s['targets'] != '*':
            out['targets'] = [(ex(e), a) for e, a in s['targets']]
        f = s.get('from')
        if f is not None and f[0] == 'subq':
            out['from'] = ('subq', st_(f[1]))
        for key in ('where', 'having'):
            if s.get(key) is not None:
                out[key] = ex(s[key])
        if s.get('group_by') is not None:
            out['group_by'] = [k if isinstance(k, int) else ex(k) for k in s['group_by']]
        if s.get('order_by') is not None:
            out['order_by'] = [(k if isinstance(k, int) else ex(k), d) for k, d in s['order_by']]
        return out
    return st_(sel)


def value_of(e):
    if e[0] == 'const':
        return e[2]
    if e[0] == 'neg':
        return -e[1][2]
    return [value_of(x) for x in e[1]]


@st.composite
def params_case(draw):
    table = draw(gen.tables(max_cols=4, max_rows=5))
    other = draw(gen.tables(name='u', max_cols=2, max_rows=4, types=gen.KEYTYPES))
    kind = draw(st.sampled_from(['plain', 'plain', 'agg', 'subq', 'in', 'twin', 'scale']))
    if kind == 'scale':
        # equal decimals of different scale are different values to functions whose result shows the scale: every
        # occurrence (constant, parameter, row) is evaluated for itself
        from decimal import Decimal as D_
        vals = draw(st.permutations([D_('12.5'), D_('12.50'), D_('-12.500'), D_('12.5'), D_('0.0'), D_('0'), D_('-0.00')]))
        table = {'name': 't', 'cols': [('rid', 'int'), ('d', 'decimal')], 'rows': [(i, v) for i, v in enumerate(vals[:5])]}
        cs = draw(st.permutations([D_('1.50'), D_('1.5'), D_('1.500'), D_('2.0'), D_('2'), D_('2.00')]))[:4]
        fns = draw(st.lists(st.sampled_from(['str', 'abs', 'strabs', 'neg']), min_size=2, max_size=3))
        mk = {'str': lambda e: ['fn', 'str', [e]], 'abs': lambda e: ['fn', 'abs', [e]], 'strabs': lambda e: ['fn', 'str', [['fn', 'abs', [e]]]],
              'neg': lambda e: ['fn', 'str', [['neg', e]]]}
        tl = [(['col', 'rid'], None)]
        for i, c in enumerate(cs):
            tl.append((mk[fns[i % len(fns)]](['const', 'decimal', c]), f'k{i}'))
        for i, f in enumerate(fns):
            tl.append((mk[f](['col', 'd']), f'r{i}'))
        sel = bql.select(tl, ('table', 't'), where=draw(st.sampled_from([None, ['ne', ['fn', 'str', [['col', 'd']]], ['const', 'str', '12.5']]])))
    numeric = [n for n, t in table['cols'] if t in ('int', 'decimal') and n != 'rid']
    if kind == 'twin' and not numeric:
        kind = 'plain'
    if kind == 'scale':
        pass
    elif kind == 'twin':
        # one expression shape written twice - as an un-aliased target and as ORDER BY / GROUP BY key - holding different
        # constants at the two places: the placeholders bind per occurrence, not per expression text
        x = ['col', draw(st.sampled_from(numeric))]
        shape = draw(st.sampled_from(['mul', 'add', 'mod', 'sub']))
        c1, c2 = draw(st.permutations([-3, -1, 2, 5, 7]))[:2]
        mk = lambda c: [shape, x, ['const', 'int', c]] if c > 0 or shape == 'mod' else [shape, x, ['neg', ['const', 'int', -c]]]  # noqa: E731
        if shape == 'mod':
            c1, c2 = abs(c1), abs(c2)
        if draw(st.booleans()):
            sel = bql.select([(['col', 'rid'], None), (mk(c1), None)], ('table', 't'),
                             order_by=[(mk(c2), draw(st.sampled_from([None, 'DESC']))), (['col', 'rid'], None)])
        else:
            sel = bql.select([(mk(c2), None), (['fn', 'count', [['star']]], 'n'), (['fn', 'min', [mk(c1)]], None)], ('table', 't'),
                             group_by=[mk(c2)], order_by=[(['fn', 'min', [mk(c2)]], 'DESC'), (mk(c2), None)])
    elif kind == 'agg':
        sel = draw(gen.agg_selects(table))
    else:
        sel = draw(gen.plain_selects(table))
    if kind == 'subq':
        inner = bql.select([(['col', n], None) for n, _ in table['cols']], ('table', 't'),
                           draw(gen.exprs('bool', table['cols'], 2)))
        sel['from'] = ('subq', inner)
    if kind == 'in':
        t = draw(st.sampled_from(['int', 'str', 'date']))
        x = draw(gen.exprs(t, table['cols'], 1))
        y = draw(gen.exprs(t, other['cols'], 1))
        inner = bql.select([(y, 'y')], ('table', 'u'), draw(st.none() | gen.exprs('bool', other['cols'], 1)))
        cond = ['in', x, ['subq', inner]]
        sel['where'] = cond if sel['where'] is None else ['and', [sel['where'], cond]]
    literal_sel = sel
    named = draw(st.booleans()) and kind != 'twin'
    values = {}

    def decide(e):
        if kind != 'twin' and draw(st.integers(0, 2)) == 0:
            return e
        v = value_of(e)
        name = f'p{len(values)}'
        if named and values and draw(st.integers(0, 2)) == 0:
            # repeated name: reuse an earlier placeholder holding an equal value of the same type
            same = [k for k, w in values.items() if type(w) is type(v) and repr(w) == repr(v)]
            if same:
                name = draw(st.sampled_from(same))
        values[name] = v
        return ['ph', name]
    sel = rebuild(literal_sel, decide)
    if not values:
        # nothing was replaced: bind two constants of a non-commutative operator in WHERE
        def add(s_, cond):
            return dict(s_, where=cond if s_['where'] is None else ['and', [s_['where'], cond]])
        literal_sel = add(literal_sel, ['gt', ['sub', ['const', 'int', 7], ['const', 'int', 2]], ['const', 'int', 0]])
        values.update(p0=7, p1=2)
        sel = add(sel, ['gt', ['sub', ['ph', 'p0'], ['ph', 'p1']], ['const', 'int', 0]])
    style = draw(gen.styles(parens=0.05, space=True)) if kind != 'twin' else bql.CANON
    text = bql.statement(sel, style)
    order = [m.group(1) for m in re.finditer(r'%\((p\d+)\)s', text)]
    if named:
        params = dict(values)
    else:
        params = [values[n] for n in order]
        text = re.sub(r'%\((p\d+)\)s', '%s', text)
    return {'tables': [table, other], 'sel': literal_sel, 'text': text, 'params': params,
            'literal_text': bql.statement(literal_sel), 'n_placeholders': len(order)}


def prop_params(sh, case):
    fails = []
    m = harness.model(case['sel'], case['tables'])
    if m[0] == 'undef':
        sh.count('oracle_undefined')
        sh.record(None, False)
        return fails
    conn, _ = harness.connect(case['tables'])
    lit = harness.engine(conn, case['literal_text'])
    par = harness.engine(conn, case['text'], case['params'])
    if lit[0] != 'ok':
        fails.append((exc_sig(lit[1], 'params:literal-raises'), f"{case['literal_text']!r}: {lit[1]!r}"))
    elif par[0] != 'ok':
        fails.append((exc_sig(par[1], 'params:raises'), f"{case['text']!r} {case['params']!r}: {par[1]!r}"))
    else:
        if not refmodel.same_rows(par[2], lit[2]):
            fails.append(('params:rows-differ-from-literal', f"{case['text']!r} {case['params']!r}\n got {par[2]!r}\n literal {case['literal_text']!r}\n gives {lit[2]!r}"))
        if [d.datatype for d in par[1]] != [d.datatype for d in lit[1]]:
            fails.append(('params:datatypes-differ-from-literal', f"{case['text']!r}: {par[1]!r} vs {lit[1]!r}"))
        if not refmodel.same_rows(par[2], m[3]):
            fails.append(('params:rows-differ-from-model', f"{case['text']!r} {case['params']!r}\n got {par[2]!r}\n want {m[3]!r}"))
    nontrivial = case['n_placeholders'] >= 2
    sh.count('named' if isinstance(case['params'], dict) else 'positional')
    sh.count(f"placeholders:{min(case['n_placeholders'], 5)}")
    sh.record(jsonio.case_hash([case['text'], case['params'], case['tables']]), nontrivial,
              {'text': case['text'], 'params': jsonio.short(case['params'])} if nontrivial else None)
    return fails


# ------------------------------------------------------------------ folding

@st.composite
def folding_case(draw):
    table = draw(gen.tables(max_cols=6, max_rows=1, min_rows=1, types=gen.SCALARS, null_p=0.0))
    table['rows'] = [tuple(v if v is not None else draw(gen.VALUES[t]) for v, (_, t) in zip(table['rows'][0], table['cols']))]
    t = draw(st.sampled_from(gen.SCALARS))
    e = draw(gen.exprs(t, table['cols'], draw(st.integers(1, 4))))
    if draw(st.integers(0, 3)) == 0:
        # COALESCE whose leading arguments are constants that evaluate to NULL (failed cast, division by zero)
        cols = table['cols']
        nulls = {'int': [['fn', 'int', [['const', 'str', 'ab']]], ['mod', ['const', 'int', 7], ['const', 'int', 0]],
                         ['fn', 'length', [['fn', 'str', [['fn', 'date', [['const', 'str', 'x']]]]]]]],
                 'decimal': [['div', ['const', 'int', 1], ['const', 'int', 0]], ['fn', 'decimal', [['const', 'str', '']]],
                             ['div', draw(gen.exprs('decimal', cols, 1)), ['const', 'decimal', gen.D('0.0')]]],
                 'date': [['fn', 'date', [['const', 'str', '2020-02-30']]], ['fn', 'date', [['const', 'int', 2021], ['const', 'int', 2], ['const', 'int', 29]]]],
                 'str': [['fn', 'str', [['fn', 'int', [['const', 'str', 'q']]]]], ['fn', 'upper', [['fn', 'str', [['div', ['const', 'int', 1], ['const', 'int', 0]]]]]]],
                 'bool': [['gt', ['div', ['const', 'int', 1], ['const', 'int', 0]], ['const', 'int', 0]], ['fn', 'bool', [['fn', 'int', [['const', 'str', '']]]]]]}
        t = draw(st.sampled_from(sorted(nulls)))
        args = [draw(st.sampled_from(nulls[t])) for _ in range(draw(st.integers(1, 2)))] + [draw(gen.exprs(t, cols, 1))]
        if draw(st.booleans()):
            args.append(draw(gen.exprs(t, cols, 1)))
        e = ['fn', 'coalesce', args]
        if draw(st.booleans()):
            e = ['isnull', e] if draw(st.booleans()) else ['fn', 'str', [e]]
    return {'tables': [table], 'expr': e}


def substitute(e, row):
    if e[0] == 'col':
        return bql.const(row[e[1]])
    if e[0] in ('const', 'list'):
        return e
    if e[0] in ('and', 'or'):
        return [e[0], [substitute(a, row) for a in e[1]]]
    if e[0] == 'fn':
        return ['fn', e[1], [substitute(a, row) for a in e[2]]]
    return [e[0]] + [substitute(x, row) if isinstance(x, list) else x for x in e[1:]]


def prop_folding(sh, case):
    fails = []
    table = case['tables'][0]
    row = dict(zip([n for n, _ in table['cols']], table['rows'][0]))
    e = case['expr']
    ce = substitute(e, row)
    s_cols = bql.select([(e, 'v')], ('table', 't'))
    s_const = bql.select([(ce, 'v')], ('table', 't'))
    m = harness.model(s_cols, case['tables'])
    if m[0] == 'undef':
        sh.count('oracle_undefined')
        sh.record(None, False)
        return fails
    conn, _ = harness.connect(case['tables'])
    a = harness.engine(conn, bql.to_ast(s_cols))
    b = harness.engine(conn, bql.to_ast(s_const))
    text = bql.statement(s_const)
    if a[0] != 'ok' or b[0] != 'ok':
        bad = a if a[0] != 'ok' else b
        fails.append((exc_sig(bad[1], 'folding:raises'), f'{text!r} / {bql.statement(s_cols)!r}: {bad[1]!r}'))
    else:
        if not refmodel.same_rows(a[2], b[2]):
            fails.append(('folding:value', f'{text!r} -> {b[2]!r}; per row {bql.statement(s_cols)!r} -> {a[2]!r}'))
        if a[1][0].datatype != b[1][0].datatype:
            fails.append(('folding:datatype', f'{text!r} -> {b[1]!r}; per row -> {a[1]!r}'))
        if not refmodel.same_rows(b[2], m[3]):
            fails.append(('folding:model', f'{text!r} -> {b[2]!r}; model {m[3]!r}'))
    nops = sum(1 for n in bql.walk(e) if n[0] not in ('col', 'const', 'list'))
    nontrivial = nops >= 2 and m[3] and m[3][0][0] is not None
    sh.record(jsonio.case_hash(case), nontrivial, {'text': text, 'value': repr(m[3])} if nontrivial else None)
    return fails


# ------------------------------------------------------------------ history

STATEMENTS = [
    # (text, list of parameter sets); on harness table #t (rid int, a int, s str) and #u (uid int, b int)
    ('SELECT rid, a - %s, %s - a AS d FROM #t WHERE a >= %s', [[1, 10, 0], [2, 20, 2], [0, 0, 5]]),
    ('SELECT rid, a * %(k)s AS x, %(k)s AS k FROM #t WHERE s ~ %(p)s', [{'k': 2, 'p': 'a'}, {'k': -3, 'p': 'b'}, {'k': 0, 'p': ''}]),
    ('SELECT s, sum(a + %s) AS t, count(*) FROM #t GROUP BY s HAVING count(*) > %s ORDER BY 2 DESC', [[1, 0], [100, 1], [0, 5]]),
    ('SELECT rid FROM #t WHERE a IN (SELECT b FROM #u WHERE b > %s) AND rid < %s', [[0, 100], [2, 3], [9, 9]]),
    ('SELECT rid, a FROM #t WHERE a IN %s', [[[1, 2]], [[3]], [[7, 8, 9]]]),
    ('SELECT %s AS c, substr(s, %s, %s) AS sub FROM #t', [['x', 0, 1], ['y', 1, 3], ['', 0, 0]]),
    ('SELECT DISTINCT s FROM #t ORDER BY s', [None]),
    ('SELECT count(*), sum(a), min(s), max(s) FROM #t', [None]),
    ('SELECT * FROM (SELECT s, count(*) AS n FROM #t GROUP BY s) WHERE n >= %s', [[1], [2]]),
    ('SELECT uid, b FROM #u ORDER BY b DESC, uid LIMIT 3', [None]),
    ('SELECT * FROM #t WHERE a >= %s', [[0], [2], [5]]),
    ('SELECT * FROM (SELECT * FROM #u) WHERE b > %s ORDER BY uid DESC', [[0], [3]]),
]
TABLE_T = {'name': 't', 'cols': [('rid', 'int'), ('a', 'int'), ('s', 'str')],
           'rows': [(0, 1, 'a'), (1, 2, 'b'), (2, None, 'a'), (3, 3, None), (4, 2, 'ab'), (5, 7, 'b'), (6, 1, 'a')]}
TABLE_U = {'name': 'u', 'cols': [('uid', 'int'), ('b', 'int')], 'rows': [(0, 1), (1, 3), (2, 7), (3, None), (4, 3)]}

OTHER_TABS = [{'name': 't', 'cols': [('s', 'str'), ('rid', 'int'), ('a', 'int')],
               'rows': [('b', 0, 7), (None, 1, 1), ('a', 2, 3), ('ab', 3, None), ('a', 4, 9), ('b', 5, 2)]},
              {'name': 'u', 'cols': [('b', 'int'), ('uid', 'int')], 'rows': [(7, 0), (2, 1), (None, 2), (9, 3)]}]

LEDGER_STATEMENTS = [
    ('SELECT date, account, balance WHERE account ~ %s', [['Checking'], ['Broker'], ['Food']]),
    ('SELECT account, balance, position, balance WHERE date >= %s', [[None], ]),
    ('SELECT account, sum(position) AS s GROUP BY account ORDER BY account', [None]),
    ('SELECT account, sum(position) AS s FROM OPEN ON 2019-02-01 CLOSE ON 2019-03-01 CLEAR GROUP BY account ORDER BY account', [None]),
    ('SELECT account, sum(position) AS s FROM OPEN ON 2019-02-01 CLOSE ON 2019-03-01 GROUP BY account ORDER BY account', [None]),
    ('SELECT account, sum(position) AS s FROM CLOSE ON 2019-02-01 GROUP BY account ORDER BY account', [None]),
    ('SELECT date, narration, position FROM year = %s CLOSE ON 2019-03-01', [[2019], [2018]]),
    ('BALANCES AT cost FROM CLEAR', [None]),
    ('BALANCES', [None]),
    ('JOURNAL "Checking"', [None]),
    ('JOURNAL', [None]),
    ('JOURNAL "Broker" AT cost', [None]),
    ('SELECT date, type, id FROM #entries WHERE type = %s', [['transaction'], ['open']]),
    ('SELECT date, account, balance FROM #postings WHERE currency = %s', [['USD'], ['HOOL']]),
    ('SELECT account, convert(sum(position), %s) AS c GROUP BY account ORDER BY account', [['USD'], ['EUR']]),
    ('SELECT account, other_accounts, weight, meta(%s) AS m WHERE number > %s', [['note', 0], ['fee', 10]]),
    # look-ups with a fall-back (posting, then transaction) read the metadata, they never add to it
    ('SELECT account, any_meta(%s) AS a, entry_meta(%s) AS e FROM #postings', [['when', 'when'], ['ref', 'note'], ['nope', 'fee']]),
    ("SELECT account, meta(%s) AS m, meta['when'] AS s FROM #postings", [['when'], ['ref'], ['nope']]),
    ('SELECT count(*) AS n FROM #postings WHERE meta(%s) IS NULL', [['when'], ['ref'], ['nope']]),
    ("JOURNAL 'Food' AT units", [None]),
    ('JOURNAL AT units', [None]),
    # untyped operands (metadata values) against a placeholder bound to values of different types in turn: the implicit
    # cast belongs to one compilation, not to the parsed statement
    ("SELECT account, entry_meta('ref') = %s AS q, entry_meta('amount') > %s AS g FROM #postings", [['A-1', 10], [D('42'), D('10.5')], [7, '1']]),
    ("SELECT account, any_meta('amount') + %s AS v FROM #postings WHERE entry_meta('when') IS NOT NULL OR any_meta('amount') < %s",
     [[1, D('11')], [D('0.5'), 11], [2, D('1e2')]]),
]
import datetime  # noqa: E402
LEDGER_STATEMENTS[1] = ('SELECT account, balance, position, balance WHERE date >= %s',
                        [[datetime.date(2019, 1, 1)], [datetime.date(2019, 2, 1)], [datetime.date(2019, 3, 5)]])


OTHER_LEDGER = ledgers.SAMPLE.replace('2019-', '2018-').replace('Assets:Bank:Checking', 'Assets:Bank:Giro')

PRINTS = ['PRINT', 'PRINT FROM year = 2019 CLOSE ON 2019-02-01', "PRINT FROM type = 'transaction' AND flag = '!'", 'PRINT FROM CLEAR']


def print_output(conn, text):
    import io
    from beanquery import query_execute
    out = io.StringIO()
    query_execute.execute_print(conn.compile(conn.parse(text)), out)
    return out.getvalue()


def history_cases(pool):
    n = len(pool)
    op = st.one_of(
        st.tuples(st.just('text'), st.integers(0, n - 1), st.integers(0, 2)),
        st.tuples(st.just('parsed'), st.integers(0, n - 1), st.integers(0, 2)),
        st.tuples(st.just('parsed'), st.integers(0, n - 1), st.integers(0, 2)),
        st.tuples(st.just('many'), st.integers(0, n - 1), st.just(0)),
        st.tuples(st.just('fetch'), st.integers(0, 3), st.just(0)),
        st.tuples(st.just('compile_only'), st.integers(0, n - 1), st.integers(0, 2)),
        st.tuples(st.just('print'), st.integers(0, 3), st.just(0)),
        st.tuples(st.just('other'), st.integers(0, n - 1), st.integers(0, 2)),
    )
    return st.lists(op, min_size=2, max_size=12)


_FRESH = {}


def fresh_result(mk_conn, text, params, tag=''):
    """Result of (text, params) on a fresh connection; memoised per process (a pure function of the
    statement, the parameters and the fixed data)."""
    key = (tag, text, repr(params))
    if key not in _FRESH:
        conn = mk_conn()
        _FRESH[key] = harness.engine(conn, text, params)
    return _FRESH[key]


def run_history(sh, ops, pool, mk_conn, snapshot, tag, mk_other=None):
    fails = []
    conn = mk_conn()
    other = mk_other() if mk_other else None
    before = snapshot(conn)
    parsed = {}
    cur = conn.cursor()
    reused = {}
    interleaved = False
    last_stmt = None
    nontrivial = False
    for kind, i, j in ops:
        if kind == 'print':
            if tag != 'ledger-history':
                continue
            text = PRINTS[i % len(PRINTS)]
            try:
                got = print_output(conn, text)
            except Exception as exc:  # noqa: BLE001
                fails.append((exc_sig(exc, f'{tag}:print-raises'), f'{text!r} after {ops!r}: {exc!r}'))
                continue
            key = (tag, text, 'print')
            if key not in _FRESH:
                _FRESH[key] = print_output(mk_conn(), text)
            if got != _FRESH[key]:
                fails.append((f'{tag}:print-differs-from-fresh', f'{text!r} after {ops!r}'))
            last_stmt = None
            continue
        if kind == 'fetch':
            try:
                cur.fetchmany(i)
            except Exception as exc:  # noqa: BLE001
                fails.append((exc_sig(exc, f'{tag}:fetch-raises'), repr(exc)))
            continue
        text, psets = pool[i]
        params = psets[j % len(psets)]
        if kind == 'other':
            # the parsed statement of this history is also executed on a second connection whose tables have the same
            # names but other rows (and another column order): nothing of either execution may stick to the statement
            if other is None:
                continue
            if i not in parsed:
                parsed[i] = conn.parse(text)
            got = harness.engine(other, parsed[i], params)
            want = fresh_result(mk_other, text, params, tag + ':other')
            if want[0] == 'ok' and (got[0] != 'ok' or got[2] != want[2] or [d.name for d in got[1]] != [d.name for d in want[1]]):
                fails.append((f'{tag}:other-connection-differs-from-fresh', f'{text!r} {params!r} after {ops!r}\n got {got[1:]!r}\n fresh {want[2]!r}'))
            nontrivial = nontrivial or i in reused
            last_stmt = None
            continue
        try:
            if kind == 'text':
                cur = conn.execute(text, params)
                got = ('ok', cur.description, cur.fetchall())
            elif kind == 'parsed':
                if i not in parsed:
                    parsed[i] = conn.parse(text)
                cur = conn.cursor()
                cur.execute(parsed[i], params)
                got = ('ok', cur.description, list(cur.fetchall()))
                seen = reused.setdefault(i, [])
                if seen and any(repr(p) != repr(params) for p in seen) and last_stmt != i:
                    nontrivial = True
                seen.append(params)
            elif kind == 'many':
                cur = conn.cursor()
                plist = [p for p in psets]
                cur.executemany(text, plist)
                got = ('ok', cur.description, list(cur.fetchall()))
                params = plist[-1]
            else:
                if i not in parsed:
                    parsed[i] = conn.parse(text)
                beanquery.compiler.compile(conn, parsed[i], params)
                last_stmt = i
                continue
        except Exception as exc:  # noqa: BLE001
            got = ('exc', exc, None)
        last_stmt = i
        want = fresh_result(mk_conn, text, params, tag)
        if want[0] != 'ok':
            if got[0] == 'ok':
                fails.append((f'{tag}:fresh-fails-but-history-ok', f'{text!r} {params!r}: {want[1]!r}'))
            continue
        if got[0] != 'ok':
            fails.append((exc_sig(got[1], f'{tag}:{kind}-raises'), f'{kind} {text!r} {params!r} after {ops!r}: {got[1]!r}'))
            continue
        if got[2] != want[2] or [(d.name, d.datatype) for d in got[1]] != [(d.name, d.datatype) for d in want[1]]:
            fails.append((f'{tag}:{kind}-differs-from-fresh', f'{kind} {text!r} {params!r}\n got {got[2]!r}\n fresh {want[2]!r}'))
    after = snapshot(conn)
    if before != after:
        fails.append((f'{tag}:source-data-mutated', 'snapshot of the source tables changed'))
    return fails, nontrivial


def prop_history(sh, case):
    tabs = [TABLE_T, TABLE_U]
    fails, nontrivial = run_history(sh, [tuple(o) for o in case['ops']], STATEMENTS,
                                    lambda: harness.connect(tabs)[0],
                                    lambda conn: [list(conn.tables[n].rows) for n in ('t', 'u')], 'history',
                                    lambda: harness.connect(OTHER_TABS)[0])
    sh.record(jsonio.case_hash(case), nontrivial, {'ops': [list(o) for o in case['ops']]} if nontrivial else None)
    return fails


def prop_ledger_history(sh, case):
    entries, errors, options = ledgers.load(ledgers.SAMPLE)
    fails, nontrivial = run_history(sh, [tuple(o) for o in case['ops']], LEDGER_STATEMENTS,
                                    lambda: ledgers.connect(ledgers.SAMPLE),
                                    lambda conn: pickle.dumps(entries), 'ledger-history',
                                    lambda: ledgers.connect(OTHER_LEDGER))
    sh.record(jsonio.case_hash(case), nontrivial or len(case['ops']) >= 4,
              {'ops': [list(o) for o in case['ops']]} if len(case['ops']) >= 4 else None)
    return fails


PARTS = {'params': prop_params, 'folding': prop_folding, 'history': prop_history, 'ledger-history': prop_ledger_history}


def run(sh):
    sh.search('params', params_case(), prop_params, quick=800, thorough=40000)
    sh.search('folding', folding_case(), prop_folding, quick=4000, thorough=100000)
    sh.search('history', history_cases(STATEMENTS).map(lambda ops: {'ops': ops}), prop_history, quick=600, thorough=20000)
    sh.search('ledger-history', history_cases(LEDGER_STATEMENTS).map(lambda ops: {'ops': ops}), prop_ledger_history,
              quick=500, thorough=15000)
