"""C10 - cursor fetch protocol and description conform to the DB-API.

Histories of cursor operations are generated as operation lists and interpreted against a
list-and-position model (model-based / stateful testing; the whole history shrinks as one
value and is stored as plain JSON for replay)."""
import itertools

from hypothesis import strategies as st

import beanquery
from vlib import htables, jsonio
from vlib.runner import exc_sig

ID = 'C10'
RULE = ('history = result-table size 0..12 + list of up to 30 cursor operations (execute/re-execute with '
        'WHERE/LIMIT variants, the same text with other positional / named parameters, fetchone, fetchmany(n), fetchmany() with the current arraysize, arraysize assignment, fetchall, full/partial '
        'iteration, new cursor, switch cursor, description probes) run against a list-and-position model; '
        'non-trivial = at least 3 different fetch kinds used, one fetchmany longer than the rows left while '
        'rows were left, and a re-execute on a cursor that had already delivered rows; distinct by hash of history')
ASSUMPTIONS = ['fetchmany sizes are non-negative (DB-API leaves negative sizes undefined)',
               'whether iterating a cursor consumes rows is not fixed by the property: both are accepted']

QUERIES = ['all', 'limit', 'ge', 'desc', 'ge_p', 'ge_p', 'ge_n', 'between_p']


def table_rows(n):
    return [(i, f'v{i % 3}') for i in range(n)]


def query(kind, k):
    if kind == 'all':
        return 'SELECT rid, v FROM #t', lambda rows: rows
    if kind == 'limit':
        return f'SELECT rid, v FROM #t LIMIT {k}', lambda rows: rows[:k]
    if kind == 'ge':
        return f'SELECT rid, v FROM #t WHERE rid >= {k}', lambda rows: [r for r in rows if r[0] >= k]
    if kind == 'desc':
        return 'SELECT v, rid FROM #t ORDER BY rid DESC', lambda rows: [(v, i) for i, v in reversed(rows)]
    # one statement text, the parameters differ from execute to execute
    if kind == 'ge_p':
        return 'SELECT rid, v FROM #t WHERE rid >= %s', lambda rows: [r for r in rows if r[0] >= k], (k,)
    if kind == 'ge_n':
        return 'SELECT rid, v FROM #t WHERE rid >= %(k)s', lambda rows: [r for r in rows if r[0] >= k], {'k': k}
    if kind == 'between_p':
        return 'SELECT rid, v FROM #t WHERE rid >= %s AND rid < %s', lambda rows: [r for r in rows if k // 2 <= r[0] < k], (k // 2, k)
    raise ValueError(kind)


op = st.one_of(
    st.tuples(st.just('fetchone')),
    st.tuples(st.just('fetchone')),
    st.tuples(st.just('fetchmany'), st.integers(0, 15)),
    st.tuples(st.just('fetchmany'), st.integers(0, 4)),
    st.tuples(st.just('fetchmany_default')),
    st.tuples(st.just('set_arraysize'), st.integers(1, 6)),
    st.tuples(st.just('fetchall')),
    st.tuples(st.just('iter'), st.none() | st.integers(0, 5)),
    st.tuples(st.just('execute'), st.sampled_from(QUERIES), st.integers(0, 13)),
    st.tuples(st.just('conn_execute'), st.sampled_from(QUERIES), st.integers(0, 13)),
    st.tuples(st.just('newcursor')),
    st.tuples(st.just('use'), st.integers(0, 3)),
    st.tuples(st.just('description')),
)

fetch_op = st.one_of(
    st.tuples(st.just('fetchone')),
    st.tuples(st.just('fetchmany'), st.integers(0, 15)),
    st.tuples(st.just('fetchmany_default')),
    st.tuples(st.just('set_arraysize'), st.integers(1, 6)),
    st.tuples(st.just('fetchall')),
    st.tuples(st.just('iter'), st.none() | st.integers(0, 5)),
    st.tuples(st.just('description')),
)
execute_op = st.tuples(st.sampled_from(['execute', 'execute', 'conn_execute']), st.sampled_from(QUERIES), st.integers(0, 13))
# two shapes: free-form operation lists, and segments "execute, then a few fetches" (re-executes after delivery)
segments = st.lists(st.tuples(execute_op, st.lists(fetch_op, min_size=1, max_size=6)), min_size=1, max_size=5).map(
    lambda segs: [o for ex, fs in segs for o in [ex] + fs])
history = st.fixed_dictionaries({
    'nrows': st.integers(0, 12),
    'ops': st.one_of(st.lists(op, min_size=1, max_size=30), segments),
})


class Model:
    def __init__(self):
        self.rows = None
        self.pos = 0
        self.names = None
        self.delivered = False
        self.arraysize = 1


def check_description(cur, m, fails):
    d = cur.description
    if m.rows is None:
        if d is not None:
            fails.append(('desc:not-none-before-execute', repr(d)))
        return
    try:
        if d is None or len(d) != len(m.names):
            fails.append(('desc:wrong-length', repr(d)))
            return
        for entry, name in zip(d, m.names):
            if len(entry) != 7:
                fails.append(('desc:entry-len', repr(len(entry))))
            items = [entry[i] for i in range(7)]
            if items[0] != name:
                fails.append(('desc:name', f'{items[0]!r} != {name!r}'))
            if items[1] is None:
                fails.append(('desc:type-code-none', repr(items)))
            if any(x is not None for x in items[2:]):
                fails.append(('desc:trailing-not-none', repr(items)))
            if [entry[i] for i in range(-7, 0)] != items:
                fails.append(('desc:negative-index', repr(items)))
            if list(iter(entry)) != items or tuple(entry) != tuple(items):
                fails.append(('desc:iteration', repr(list(iter(entry)))))
            for a, b, c in itertools.product([None, 0, 1, 2, 5, 7, 9, -1, -3], [None, 0, 2, 3, 7, 8, -1, -2],
                                             [None, 1, 2, -1]):
                want = tuple(items[a:b:c])
                try:
                    got = entry[a:b:c]
                except Exception as exc:  # noqa: BLE001
                    fails.append(('desc:slice-raises', f'entry[{a}:{b}:{c}] -> {type(exc).__name__}: {exc}'))
                    break
                if tuple(got) != want:
                    fails.append(('desc:slice-value', f'entry[{a}:{b}:{c}] = {got!r}, want {want!r}'))
                    break
            try:
                entry[7]
                fails.append(('desc:index-7-accepted', ''))
            except IndexError:
                pass
            if not (entry == entry) or entry != entry:
                fails.append(('desc:self-equality', ''))
        other = tuple(d)
        if not all(x == y for x, y in zip(d, other)):
            fails.append(('desc:equality', ''))
    except Exception as exc:  # noqa: BLE001
        fails.append((exc_sig(exc, 'desc-exc'), repr(exc)))


def prop_history(sh, case):
    fails = []
    rows = table_rows(case['nrows'])
    table = htables.HTable('t', [('rid', int), ('v', str)], rows)
    conn = htables.connection([table])
    cursors = [conn.cursor()]
    models = [Model()]
    active = 0
    kinds = set()
    overlong = False
    reexec = False

    def state(where):
        cur, m = cursors[active], models[active]
        if cur.rownumber != m.pos:
            fails.append(('rownumber', f'{where}: rownumber={cur.rownumber} model={m.pos}'))
        want = -1 if m.rows is None else len(m.rows)
        if cur.rowcount != want:
            fails.append(('rowcount', f'{where}: rowcount={cur.rowcount} model={want}'))
        if m.rows is None and cur.description is not None:
            fails.append(('desc:not-none-before-execute', where))
        if cur.arraysize != m.arraysize:
            fails.append(('arraysize', f'{where}: arraysize={cur.arraysize} model={m.arraysize}'))

    try:
        state('initial')
        for o in case['ops']:
            o = tuple(o)
            cur, m = cursors[active], models[active]
            name = o[0]
            left = [] if m.rows is None else m.rows[m.pos:]
            if name == 'fetchone':
                kinds.add(name)
                got = cur.fetchone()
                want = left[0] if left else None
                if got != want or (want is not None and type(got) is not tuple):
                    fails.append(('fetchone', f'got {got!r} want {want!r}'))
                if left:
                    m.pos += 1
                    m.delivered = True
            elif name in ('fetchmany', 'fetchmany_default'):
                kinds.add('fetchmany')
                if name == 'fetchmany':
                    k = o[1]
                    got = cur.fetchmany(k)
                else:
                    k = m.arraysize
                    got = cur.fetchmany()
                want = left[:k]
                if list(got) != want or not isinstance(got, list):
                    fails.append((name, f'n={k} got {got!r} want {want!r}'))
                if left and k > len(left):
                    overlong = True
                m.pos += len(want)
                m.delivered = m.delivered or bool(want)
            elif name == 'set_arraysize':
                cur.arraysize = m.arraysize = o[1]
            elif name == 'fetchall':
                kinds.add(name)
                got = cur.fetchall()
                if list(got) != left or not isinstance(got, list):
                    fails.append(('fetchall', f'got {got!r} want {left!r}'))
                m.pos += len(left)
                m.delivered = m.delivered or bool(left)
            elif name == 'iter':
                kinds.add(name)
                before = cur.rownumber
                it = iter(cur)
                got = list(it) if o[1] is None else list(itertools.islice(it, o[1]))
                want = left if o[1] is None else left[:o[1]]
                if got != want:
                    fails.append(('iter', f'take={o[1]} got {got!r} want {want!r}'))
                # consuming and non-consuming iterators are both admitted; resynchronise
                adv = cur.rownumber - before
                if adv not in (0, len(want)):
                    fails.append(('iter:rownumber', f'advanced by {adv}, delivered {len(want)}'))
                else:
                    m.pos += adv
                    m.delivered = m.delivered or adv > 0
            elif name in ('execute', 'conn_execute'):
                text, expect, *params = query(o[1], o[2])
                if name == 'execute':
                    if m.delivered:
                        reexec = True
                    r = cur.execute(text, *params)
                    if r is not cur:
                        fails.append(('execute:return', repr(r)))
                else:
                    cur = conn.execute(text, *params)
                    cursors.append(cur)
                    models.append(Model())
                    active = len(cursors) - 1
                    m = models[active]
                m.rows = expect(rows)
                m.pos = 0
                m.delivered = False
                m.names = ['v', 'rid'] if o[1] == 'desc' else ['rid', 'v']
            elif name == 'newcursor':
                cursors.append(conn.cursor())
                models.append(Model())
                active = len(cursors) - 1
            elif name == 'use':
                active = o[1] % len(cursors)
            elif name == 'description':
                check_description(cur, m, fails)
            state(name)
    except Exception as exc:  # noqa: BLE001
        fails.append((exc_sig(exc), repr(exc)))

    nontrivial = len(kinds) >= 3 and overlong and reexec
    sh.record(jsonio.case_hash(case), nontrivial, sample=case if nontrivial else None)
    sh.count(f'fetch_kinds={len(kinds)}')
    if overlong:
        sh.count('overlong_fetchmany')
    if reexec:
        sh.count('reexecute_after_delivery')
    if len(cursors) > 1:
        sh.count('several_cursors')
    return fails


def prop_module(sh, case):
    fails = []
    if beanquery.apilevel != '2.0':
        fails.append(('module:apilevel', repr(beanquery.apilevel)))
    if beanquery.paramstyle not in ('pyformat', 'format'):
        fails.append(('module:paramstyle', repr(beanquery.paramstyle)))
    if beanquery.threadsafety != 2:
        fails.append(('module:threadsafety', repr(beanquery.threadsafety)))
    sh.record('module', False)
    return fails


PARTS = {'history': prop_history, 'module': prop_module}


def run(sh):
    if sh.index == 0:
        for sig, detail in prop_module(sh, None):
            sh.fail(sig, detail, None, 'module')
    sh.search('history', history, prop_history, quick=4000, thorough=80000)
