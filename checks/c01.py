"""C01 - row-level evaluation: WHERE filtering, expression values, NULL semantics.

matrix part : every operator / scalar function x admissible operand-type tuple, evaluated over
              the full cross product of small per-type value pools, as target and as WHERE.
random part : typed expression trees (depth <= 4) over NULL-rich random tables, random printing
              style, optional WHERE and FROM-expression.
Oracle      : vlib.refmodel (independent three-valued evaluator)."""
import datetime
import itertools
from decimal import Decimal as D

from hypothesis import strategies as st

from vlib import bql, gen, harness, jsonio, refmodel

ID = 'C01'
RULE = ('matrix: one query per (operator|function, operand types, target|WHERE) over the cross product of value '
        'pools (exhaustive over the pools); random: table (1..6 typed columns incl. object, 0..8 rows, NULL-rich) '
        '+ non-aggregate SELECT with 1..4 typed expression targets of depth <= 4, optional WHERE / FROM-expression, '
        'a quarter printed in a random layout and executed from text, the rest executed from the AST. Non-trivial = statement has an operator or function node, table has >= 2 rows, the reference '
        'evaluation met a NULL operand, and with a condition at least one row kept and one dropped. Distinct by '
        'hash of (text, tables).')
ASSUMPTIONS = ['leaf arithmetic of CPython int/Decimal/date is trusted (both sides use it)',
               'AND/OR/NOT are only applied to bool-typed operands',
               'cases where the reference arithmetic itself is undefined (overflow, decimal signals) are discarded and counted']

POOLS = {
    'int': [None, -2, 0, 1, 2, 7],
    'decimal': [None, D('-2.5'), D('0'), D('1'), D('1.0'), D('2.00'), D('0.5'), D('7')],
    'str': [None, '', 'a', 'A', 'ab', 'b'],
    'date': [None, datetime.date(2019, 12, 31), datetime.date(2020, 2, 29), datetime.date(2020, 3, 1)],
    'bool': [None, True, False],
    'object': [None, 1, D('2.5'), 'x', '2.5', datetime.date(2020, 2, 29), True, '2020-02-29', ''],
}
SMALL = {
    'int': [None, -1, 0, 2],
    'decimal': [None, D('-1.5'), D('0'), D('2'), D('2.0')],
    'str': [None, '', 'a', 'B'],
    'date': [None, datetime.date(2019, 12, 31), datetime.date(2020, 2, 29)],
}


def _table(types, pools=POOLS):
    names = ['l', 'r', 'u'][:len(types)]
    rows = [tuple([i] + list(vals)) for i, vals in enumerate(itertools.product(*(pools[t] for t in types)))]
    return {'name': 'm', 'cols': [('rid', 'int')] + list(zip(names, types)), 'rows': rows}


def _case(table, e, where=False):
    if where:
        sel = bql.select([(['col', 'rid'], None)], ('table', 'm'), where=e)
    else:
        sel = bql.select([(['col', 'rid'], None), (e, 'v')], ('table', 'm'))
    return {'tables': [table], 'sel': sel, 'text': bql.statement(sel), 'matrix': True}


def matrix_cases():
    L, R, U = ['col', 'l'], ['col', 'r'], ['col', 'u']
    out = []

    def both(table, e):
        out.append(_case(table, e))
        try:
            if bql.infer(e, dict(table['cols'])) == 'bool':
                out.append(_case(table, e, where=True))
        except bql.IllTyped:
            pass

    nums = ['int', 'decimal']
    for op in bql.ARITH:
        for a, b in itertools.product(nums, nums):
            both(_table([a, b]), [op, L, R])
    both(_table(['date', 'int']), ['add', L, R])
    both(_table(['int', 'date']), ['add', L, R])
    both(_table(['date', 'int']), ['sub', L, R])
    both(_table(['date', 'date']), ['sub', L, R])
    for op in ('eq', 'ne', 'lt', 'le', 'gt', 'ge'):
        for a, b in list(itertools.product(nums, nums)) + [('date', 'date'), ('str', 'str')]:
            both(_table([a, b]), [op, L, R])
        # implicit casts of untyped operands
        for ty in ('decimal', 'int', 'str', 'date'):
            both(_table(['object', ty]), [op, L, R])
            both(_table([ty, 'object']), [op, L, R])
    for op in ('add', 'sub', 'mul', 'div', 'mod'):
        for ty in nums:
            both(_table(['object', ty]), [op, L, R])
            both(_table([ty, 'object']), [op, L, R])
    both(_table(['object', 'date']), ['sub', L, R])
    both(_table(['date', 'object']), ['sub', L, R])
    for op in ('match', 'notmatch'):
        both(_table(['str', 'str']), [op, L, R])
        both(_table(['str']), [op, L, ['const', 'str', 'a']])
        both(_table(['object', 'str']), [op, L, R])
    lists = {'int': [0, 2, 7], 'decimal': [D('1'), D('2.0')], 'str': ['a', ''], 'date': [datetime.date(2020, 2, 29)],
             'bool': [True], 'object': [1, 'x']}
    for op in ('in', 'notin'):
        for ty, items in lists.items():
            if ty == 'object':
                continue
            both(_table([ty]), [op, L, ['list', [bql.const(v) for v in items]]])
            both(_table([ty]), [op, L, ['list', [bql.const(items[0])]]])
    for a, b, c in itertools.product(nums, nums, nums):
        both(_table([a, b, c], SMALL), ['between', L, R, U])
    both(_table(['date'] * 3, SMALL), ['between', L, R, U])
    both(_table(['str'] * 3, SMALL), ['between', L, R, U])
    for ty in gen.ALLTYPES:
        both(_table([ty]), ['isnull', L])
        both(_table([ty]), ['isnotnull', L])
        both(_table([ty, ty]), ['fn', 'coalesce', [L, R]])
        both(_table([ty]), ['fn', 'coalesce', [L]])
        both(_table([ty]), ['fn', 'str', [L]])
        both(_table([ty]), ['fn', 'bool', [L]])
    for ty in nums:
        both(_table([ty]), ['neg', L])
    # boolean connectives: complete truth tables for 2 and 3 operands
    b2, b3 = _table(['bool', 'bool']), _table(['bool', 'bool', 'bool'])
    both(_table(['bool']), ['not', L])
    both(_table(['bool']), ['not', ['not', L]])
    for op in ('and', 'or'):
        both(b2, [op, [L, R]])
        both(b3, [op, [L, R, U]])
        both(b3, [op, [[op, [L, R]], U]])
        both(b2, ['not', [op, [L, R]]])
        both(b2, [op, [['not', L], R]])
    # constant operands (literal or folded) at every position: the truth tables do not change when the compiler folds
    T, F = ['const', 'bool', True], ['const', 'bool', False]
    lt = ['lt', ['const', 'int', 1], ['const', 'int', 2]]        # folds to TRUE
    gt = ['gt', ['const', 'int', 1], ['const', 'int', 2]]        # folds to FALSE
    nul = ['eq', ['mod', ['const', 'int', 1], ['const', 'int', 0]], ['const', 'int', 1]]   # folds to NULL
    for op in ('and', 'or'):
        for c in (T, F, lt, gt, nul):
            both(b2, [op, [L, c]])
            both(b2, [op, [c, L]])
            both(b2, [op, [L, c, R]])
            both(b2, [op, [L, R, c]])
            both(b2, ['isnull', [op, [L, c]]])
            both(b2, ['fn', 'coalesce', [[op, [L, c]], R]])
            both(b2, ['not', [op, [L, c]]])
    both(b3, ['or', [L, ['and', [R, U]]]])
    both(b3, ['and', [L, ['or', [R, U]]]])
    both(b3, ['or', [['and', [L, R]], U]])
    # total scalar functions
    for name, sigs in bql.FUNCS.items():
        for sig, _ in sigs:
            if 'any' in sig:
                continue
            pools = POOLS if len(sig) < 3 else dict(POOLS, int=[None, -1, 0, 1, 2, 3, 12, 29, 31, 2020])
            if name == 'substr':
                pools = dict(POOLS, int=[None, -3, -1, 0, 1, 2, 5])
            if name == 'date' and len(sig) == 3:
                pools = dict(POOLS, int=[None, 0, 2, 12, 13, 29, 30, 2019, 2020])
            both(_table(list(sig), pools), ['fn', name, [L, R, U][:len(sig)]])
    return out


@st.composite
def random_case(draw):
    table = draw(gen.tables(max_cols=6, max_rows=8))
    cols = table['cols']
    tg = draw(gen.targets(cols, 1, 4, depth=3))
    where = draw(st.none() | gen.exprs('bool', cols, 3))
    form = draw(st.sampled_from(['table', 'table', 'default', 'fromexpr']))
    if form == 'table':
        frm, default = ('table', table['name']), None
    elif form == 'default':
        frm, default = None, table['name']
    else:
        frm, default = ('expr', draw(gen.exprs('bool', cols, 2)), None, None, None), table['name']
    sel = bql.select(tg, frm, where)
    if draw(st.integers(0, 3)) > 0:
        # executed from the AST (Connection.execute accepts parsed statements): 50x faster than parsing the text
        sel = harness.force_aliases(sel)
        case = {'tables': [table], 'sel': sel, 'text': bql.statement(sel), 'via_ast': True}
    else:
        style = draw(gen.styles(parens=0.15, space=True, case=False))
        case = {'tables': [table], 'sel': sel, 'text': bql.statement(sel, style)}
    if default:
        case['default'] = default
    return case


def prop_select(sh, case):
    refmodel.STATS.clear()
    fails, info = harness.compare_select(case)
    if 'undef' in info:
        sh.count('oracle_undefined')
        sh.record(None, False)
        return fails
    sel = case['sel']
    exprs = [e for e, _ in sel['targets']] + ([sel['where']] if sel['where'] else [])
    if sel['from'] and sel['from'][0] == 'expr':
        exprs.append(sel['from'][1])
    ops = [n[0] if n[0] != 'fn' else n[1] for e in exprs for n in bql.walk(e) if n[0] not in ('col', 'const', 'list')]
    nrows = len(case['tables'][0]['rows'])
    cond = sel['where'] is not None or (sel['from'] and sel['from'][0] == 'expr')
    kept = len(info.get('want', ()))
    nontrivial = bool(ops) and nrows >= 2 and refmodel.STATS['null_operand'] > 0 and (
        not cond or 0 < kept < nrows)
    part = 'matrix' if case.get('matrix') else 'random'
    sample = {'text': case['text'], 'rows': nrows, 'kept': kept} if nontrivial else None
    if case.get('matrix'):
        sh.count('matrix_cells', nrows)
        sh.count('matrix_queries')
    else:
        for o in set(ops):
            sh.count(f'op:{o}')
        sh.count(f'depth:{max(bql.depth(e) for e in exprs)}')
        if nrows == 0:
            sh.count('empty_table')
        if cond:
            sh.count('with_condition')
    sh.record(jsonio.case_hash([case['text'], case['tables']]), nontrivial, sample)
    return [(f'{part}:{s}' if not s.startswith(part) else s, d) for s, d in fails]


PARTS = {'matrix': prop_select, 'random': prop_select}


def run(sh):
    for case in sh.mine(matrix_cases()):
        for sig, detail in prop_select(sh, case):
            sh.fail(sig, detail, case, 'matrix')
    sh.extra['exhaustive_over_pools'] = True
    sh.search('random', random_case(), prop_select, quick=8000, thorough=240000)
