"""C15 - PIVOT BY is a lossless reshaping of a two-key aggregate result.

matrix : the two pivot columns in every pair of positions among 3..5 targets, referenced by name and
         by position, with 1..3 remaining aggregate columns, over a fixed sparse table.
random : generated tables with two key columns (int / str / date, small domains incl. multi-digit
         ints, sparse combinations) and 1..3 aggregates; grouping explicit or implicit.
invalid: out-of-range / unknown / identical (also mixed name+position) / ungrouped references and
         PIVOT BY on a non-aggregate query must raise CompilationError.
Oracle : computed from the un-pivoted result U of the same query (itself checked against the
         reference model): rows, block order, names, datatypes, NULL fill; un-pivoting gives U back."""
import datetime
import itertools

from hypothesis import strategies as st

import beanquery

from vlib import bql, gen, harness, jsonio, refmodel
from vlib.runner import exc_sig

ID = 'C15'
RULE = ('random: table with key columns k1,k2 (int incl. 2/9/11/100, str, date; no NULL keys), value columns with NULLs, '
        '0..8 rows; aggregate SELECT whose non-aggregate targets are exactly the two keys in any target positions, 1..3 '
        'aggregate targets, optional WHERE/HAVING, explicit or implicit GROUP BY, PIVOT BY by names and/or positions. '
        'Non-trivial = >= 2 distinct values in each key, at least one missing combination, and >= 2 remaining columns or '
        'pivot columns not in positions 1,2. Distinct by hash of (statement, table).')
ASSUMPTIONS = ['values of the second pivot column are non-NULL (their column label is not specified); NULL in the first column orders first',
               'column labels for key values are their str() form']

KEYPOOLS = {
    'int': [1, 2, 9, 11, 100, -3],
    'str': ['a', 'B', 'ab', '', 'b'],
    'date': [datetime.date(2020, 1, 1), datetime.date(2019, 12, 31), datetime.date(2020, 2, 29)],
}


@st.composite
def pivot_tables(draw):
    t1 = draw(st.sampled_from(list(KEYPOOLS)))
    t2 = draw(st.sampled_from(list(KEYPOOLS)))
    p1 = draw(st.lists(st.sampled_from(KEYPOOLS[t1]), min_size=1, max_size=3, unique=True))
    p2 = draw(st.lists(st.sampled_from(KEYPOOLS[t2]), min_size=1, max_size=4, unique=True))
    vt = [draw(st.sampled_from(['int', 'decimal', 'str', 'date'])) for _ in range(draw(st.integers(1, 2)))]
    n = draw(st.sampled_from([0, 1, 3, 4, 5, 6, 8]))
    rows = []
    if draw(st.integers(0, 3)) == 0:
        p1 = p1 + [None]          # a NULL value in the first pivot column orders first and stays NULL
    for i in range(n):
        vals = [draw(st.none() | gen.VALUES[t]) for t in vt]
        rows.append(tuple([i, draw(st.sampled_from(p1)), draw(st.sampled_from(p2))] + vals))
    cols = [('rid', 'int'), ('k1', t1), ('k2', t2)] + [(f'v{i}', t) for i, t in enumerate(vt)]
    return {'name': 't', 'cols': cols, 'rows': rows}


@st.composite
def pivot_case(draw):
    table = draw(pivot_tables())
    cols = table['cols']
    vcols = [c for c in cols if c[0].startswith('v')]
    aggs = []
    for i in range(draw(st.integers(1, 3))):
        a, _ = draw(gen.agg_calls(vcols + [('rid', 'int')]))
        aggs.append((a, f'a{i}' if draw(st.booleans()) else None))
    k1 = (['col', 'k1'], draw(st.sampled_from([None, None, 'first'])))
    k2 = (['col', 'k2'], draw(st.sampled_from([None, None, 'second'])))
    tl = draw(st.permutations([k1, k2] + aggs))
    return build_case(draw, table, tl, k1, k2)


def build_case(draw, table, tl, k1, k2):
    p1, p2 = tl.index(k1) + 1, tl.index(k2) + 1
    n1 = k1[1] or 'k1'
    n2 = k2[1] or 'k2'
    pick = (lambda options: draw(st.sampled_from(options))) if draw else (lambda options: options[0])
    gb = pick([None, [p1, p2], [['col', n1], ['col', n2]], [['col', 'k2'], ['col', 'k1']], [p2, ['col', 'k1']]])
    ref1 = pick([p1, n1])
    ref2 = pick([p2, n2])
    # (the last condition keeps no row: the pivoted description then has its leading column only)
    where = pick([None, None, ['gt', ['col', 'rid'], ['const', 'int', 0]], None, ['gt', ['col', 'rid'], ['const', 'int', 1000000]]])
    having = None
    if gb is not None and pick([False, False, True]):
        having = ['gt', ['fn', 'count', [['star']]], ['const', 'int', 0]]
    if pick([False, False, True]):
        # a sub-select compiled after the targets, naming columns like the pivot columns
        inner = bql.select([(['col', pick(['k1', 'k2'])], pick([None, n1, n2]))], ('table', 't'))
        cond = ['in', ['col', inner['targets'][0][0][1]], ['subq', inner]]
        where = cond if where is None else ['and', [where, cond]]
    okey = ref1 if isinstance(ref1, int) else ['col', ref1]
    order = pick([None, None, [(okey, 'DESC')], [(p1, 'ASC')], [(p2, 'DESC'), (p1, 'DESC')], [(['fn', 'count', [['star']]], 'DESC')]])
    # LIMIT cuts the un-pivoted (sorted) rows, the pivot reshapes what is left
    limit = pick([None, None, None, 1, 2, 3, 5])
    sel = bql.select([tuple(t) for t in tl], ('table', 't'), where, gb, having, order_by=order, pivot_by=[ref1, ref2], limit=limit)
    alt = dict(sel, pivot_by=[p1 if ref1 != p1 else n1, p2 if ref2 != p2 else n2])
    return {'tables': [table], 'sel': harness.force_aliases(sel), 'alt': harness.force_aliases(alt), 'pos': [p1, p2]}


FIXED = {'name': 't', 'cols': [('rid', 'int'), ('k1', 'str'), ('k2', 'int'), ('v0', 'int'), ('v1', 'decimal')],
         'rows': [(0, 'b', 11, 1, None), (1, 'a', 2, 2, refmodel.Decimal('1.5')), (2, 'b', 2, None, refmodel.Decimal('2')),
                  (3, 'a', 100, 4, None), (4, 'b', 11, 5, refmodel.Decimal('0.5')), (5, 'c', 9, 6, None),
                  (6, 'a', 2, 7, refmodel.Decimal('3'))]}


def matrix_cases():
    out = []
    aggs = [(['fn', 'sum', [['col', 'v0']]], 's'), (['fn', 'count', [['col', 'v1']]], None), (['fn', 'max', [['col', 'v1']]], 'm')]
    for nagg in (1, 2, 3):
        for alias1, alias2 in ((None, None), ('x', 'y')):
            k1, k2 = (['col', 'k1'], alias1), (['col', 'k2'], alias2)
            n = 2 + nagg
            for i, j in itertools.permutations(range(n), 2):
                rest = iter(aggs[:nagg])
                tl = [k1 if p == i else k2 if p == j else next(rest) for p in range(n)]
                for byname in (False, True):
                    p1, p2 = i + 1, j + 1
                    refs = [alias1 or 'k1', alias2 or 'k2'] if byname else [p1, p2]
                    sel = bql.select(tl, ('table', 't'), pivot_by=refs)
                    alt = dict(sel, pivot_by=[p1, p2] if byname else [alias1 or 'k1', alias2 or 'k2'])
                    out.append({'tables': [FIXED], 'sel': harness.force_aliases(sel), 'alt': harness.force_aliases(alt),
                                'pos': [p1, p2], 'matrix': True})
    return out


def prop_pivot(sh, case):
    fails = []
    sel = case['sel']
    part = 'matrix' if case.get('matrix') else 'random'
    unpivoted = dict(sel, pivot_by=None)
    m = harness.model(unpivoted, case['tables'])
    if m[0] == 'undef':
        sh.count('oracle_undefined')
        sh.record(None, False)
        return fails
    conn, _ = harness.connect(case['tables'])
    text = bql.statement(sel)
    ru = harness.engine(conn, bql.to_ast(unpivoted))
    stmt = bql.to_ast(sel)
    rp = harness.engine(conn, stmt)
    ra = harness.engine(conn, bql.to_ast(case['alt']))
    # the same statement object executed again: compiling PIVOT BY leaves the statement as it was
    rp2 = harness.engine(conn, stmt)
    if rp[0] == 'ok' and (rp2[0] != 'ok' or rp2[2] != rp[2] or [d.name for d in rp2[1]] != [d.name for d in rp[1]]):
        fails.append((f'{part}:second-execution-differs', f'{bql.statement(sel)!r}: first {rp[1:]!r}, second {rp2[1:]!r}'[:1500]))
    for r, what in ((ru, 'unpivoted'), (rp, 'pivot'), (ra, 'alt')):
        if r[0] != 'ok':
            fails.append((exc_sig(r[1], f'{part}:{what}-raises'), f'{text!r}: {r[1]!r}'))
    if fails:
        return fails
    if not refmodel.same_rows(ru[2], m[3]):
        fails.append((f'{part}:unpivoted-differs-from-model', f'{text!r}: {ru[2]!r} vs {m[3]!r}'))
        return fails
    names = [d.name for d in ru[1]]
    types = [d.datatype for d in ru[1]]
    c1, c2 = case['pos'][0] - 1, case['pos'][1] - 1
    wn, wt, wr = refmodel.pivot(names, types, ru[2], c1, c2)
    gn, gt = [d.name for d in rp[1]], [d.datatype for d in rp[1]]
    if gn != wn:
        fails.append((f'{part}:names', f'{text!r}: {gn} want {wn}'))
    if gt != wt:
        fails.append((f'{part}:datatypes', f'{text!r}: {gt} want {wt}'))
    if not refmodel.same_rows(rp[2], wr):
        fails.append((f'{part}:rows', f'{text!r}\n got  {rp[2]!r}\n want {wr!r}\n from {ru[2]!r}'))
    if any(len(r) != len(gn) for r in rp[2]):
        fails.append((f'{part}:row-length', f'{text!r}'))
    # un-pivoting reproduces the un-pivoted result (as a set)
    other = [i for i in range(len(names)) if i not in (c1, c2)]
    keys2 = sorted({r[c2] for r in ru[2]})
    if not fails:
        back = set()
        for row in rp[2]:
            for bi, k in enumerate(keys2):
                block = row[1 + bi * len(other): 1 + (bi + 1) * len(other)]
                orig = [None] * len(names)
                orig[c1], orig[c2] = row[0], k
                for i, v in zip(other, block):
                    orig[i] = v
                back.add(tuple(orig))
        missing = [r for r in ru[2] if tuple(r) not in back]
        if missing:
            fails.append((f'{part}:unpivot-loses-rows', f'{text!r}: {missing!r}'))
    if (ra[2], [d.name for d in ra[1]]) != (rp[2], gn):
        fails.append((f'{part}:name-vs-position', f'{text!r} vs {bql.statement(case["alt"])!r}'))
    k1s, k2s = {r[c1] for r in ru[2]}, {r[c2] for r in ru[2]}
    sparse = len(ru[2]) < len(k1s) * len(k2s)
    nontrivial = len(k1s) >= 2 and len(k2s) >= 2 and sparse and (len(other) >= 2 or (c1, c2) != (0, 1))
    sh.count(f'{part}:remaining={len(other)}')
    sh.count(f'{part}:refs=' + '+'.join('pos' if isinstance(k, int) else 'name' for k in sel['pivot_by']))
    sh.record(jsonio.case_hash([sel, case['tables']]), nontrivial,
              {'text': text, 'names': gn, 'rows': repr(rp[2])[:200]} if nontrivial else None, n=3)
    return fails


def invalid_cases():
    s, c = ['fn', 'sum', [['col', 'v0']]], ['fn', 'count', [['star']]]
    K1, K2 = ['col', 'k1'], ['col', 'k2']
    base = [(K1, None), (K2, None), (s, 's')]
    out = []
    for refs in ([0, 1], [1, 0], [1, 4], [4, 1], [1, 99], [['x'], 1], [1, 1], [2, 2], ['k1', 'k1'], ['k1', 1], [1, 'k1'],
                 ['k2', 2], [2, 'k2'], ['nope', 'k2'], ['k1', 'nope'], ['k1', 's'], [1, 3], ['v0', 'k1']):
        refs = [r[0] if isinstance(r, list) else r for r in refs]
        out.append(('refs', bql.select(base, ('table', 't'), pivot_by=refs)))
    # hidden grouping column is not an output position
    out.append(('hidden-position', bql.select([(K1, None), (s, 's')], ('table', 't'), group_by=[K1, K2], pivot_by=[1, 3])))
    out.append(('hidden-position', bql.select([(K1, None), (c, 'n')], ('table', 't'), group_by=[K1, K2], pivot_by=[3, 1])))
    # not an aggregate query
    out.append(('non-aggregate', bql.select([(K1, None), (K2, None), (['col', 'v0'], None)], ('table', 't'), pivot_by=[1, 2])))
    out.append(('non-aggregate', bql.select([(K1, None), (K2, None)], ('table', 't'), pivot_by=['k1', 'k2'])))
    return out


def prop_invalid(sh, case):
    fails = []
    conn, _ = harness.connect([FIXED])
    for kind, sel in invalid_cases():
        text = bql.statement(sel)
        for q in (text, bql.to_ast(sel)):
            try:
                cur = conn.execute(q)
                fails.append((f'invalid:{kind}:accepted', f'{text!r} -> {[d.name for d in cur.description]}'))
            except beanquery.CompilationError:
                pass
            except Exception as exc:  # noqa: BLE001
                fails.append((exc_sig(exc, f'invalid:{kind}'), f'{text!r}: {exc!r}'))
        sh.record(text, True, {'text': text, 'expected': 'CompilationError'}, n=2)
    return fails


PARTS = {'matrix': prop_pivot, 'random': prop_pivot, 'invalid': prop_invalid}


def run(sh):
    for case in sh.mine(matrix_cases()):
        for sig, detail in prop_pivot(sh, case):
            sh.fail(sig, detail, case, 'matrix')
    if sh.index == 0:
        for sig, detail in prop_invalid(sh, None):
            sh.fail(sig, detail, None, 'invalid')
    sh.search('random', pivot_case(), prop_pivot, quick=8000, thorough=200000)
