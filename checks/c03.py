"""C03 - ORDER BY / DISTINCT / LIMIT: stable sorted permutation, NULL first, dedup, cut.

matrix : all direction patterns of 1..3 keys x key form (position, name, visible, hidden
         expression) over {NULL,1,2}^3 twice (ties, NULLs, zero and negative values in every key), with/without
         DISTINCT, LIMIT around the result size.
random : generated aggregate and non-aggregate SELECTs with ORDER BY / DISTINCT / LIMIT vs the
         reference pipeline (stable sort -> project -> DISTINCT -> LIMIT).
sorted : model-free chain on engine results only: the ordered result is a permutation of the
         unordered one, non-decreasing under the per-key directions with NULL lowest, ties keep
         the unordered result's relative order (observed through rid / min(rid)), and DISTINCT /
         LIMIT equal first-occurrence dedup / prefix of it.
limits : LIMIT 0, 1, size-1, size, size+1, 10^6, 2^63-1, 2^63, 10^30."""
import itertools

from hypothesis import strategies as st

from vlib import bql, gen, harness, jsonio, refmodel

ID = 'C03'
RULE = ('random/sorted: table (NULL-rich pools of <= 5 values per column so ties are frequent, 0..8 rows, unique rid) + '
        'SELECT (aggregate or not) with 1..3 ORDER BY keys (output position, output name, visible expression, hidden '
        'expression, aggregate; ASC/DESC/default), optional DISTINCT and LIMIT. Non-trivial = (>= 2 keys with differing '
        'directions or a hidden key) and a tie on the full key tuple or on the first key and a NULL key value; or '
        'DISTINCT removed a row; or LIMIT cut rows. Distinct by hash of (statement, table). matrix/limits: enumerated.')
ASSUMPTIONS = ['sort keys are mutually comparable scalars (int/decimal, str, date, bool); no order is promised on other types',
               'aliases referenced by ORDER BY are unique and differ from table column names']

VALS = [None, -1, 0, 2]


def matrix_table():
    rows = list(itertools.product(VALS, VALS, VALS)) * 2
    return {'name': 'm', 'cols': [('rid', 'int'), ('a', 'int'), ('b', 'int'), ('c', 'int')],
            'rows': [(i,) + r for i, r in enumerate(rows)]}


def matrix_cases():
    table = matrix_table()
    out = []
    A, B, C, R = ['col', 'a'], ['col', 'b'], ['col', 'c'], ['col', 'rid']
    forms = {
        'position': ([(A, None), (B, None), (C, None), (R, None)], [1, 2, 3]),
        'name': ([(A, 'x'), (B, 'y'), (C, None), (R, None)], [['col', 'x'], ['col', 'y'], C]),
        'visible': ([(['add', A, B], None), (['neg', B], 'nb'), (C, None), (R, None)], [['add', A, B], ['neg', B], C]),
        'hidden': ([(R, None)], [A, ['mul', B, ['const', 'int', 2]], ['fn', 'coalesce', [C, ['const', 'int', 0]]]]),
        'mixed': ([(C, None), (R, None), (A, 'x')], [B, 1, ['col', 'x']]),
    }
    for form, (tl, keys) in forms.items():
        for n in (1, 2, 3):
            for dirs in itertools.product([None, 'ASC', 'DESC'] if n == 1 else ['ASC', 'DESC'], repeat=n):
                ob = list(zip(keys[:n], dirs))
                out.append(bql.select(tl, ('table', 'm'), order_by=ob))
                if form in ('hidden', 'mixed') or n < 3:
                    out.append(bql.select([t for t in tl if t[0] != R], ('table', 'm'), order_by=ob, distinct=True))
                out.append(bql.select(tl, ('table', 'm'), order_by=ob, limit=5))
    # DISTINCT + LIMIT together, around the de-duplicated size, keys in one direction and in both
    for lim in (0, 1, 3, 15, 16, 17):
        out.append(bql.select([(A, None), (B, None)], ('table', 'm'), order_by=[(C, 'DESC'), (1, 'ASC')], distinct=True, limit=lim))
        for d in ('ASC', 'DESC'):
            out.append(bql.select([(A, None)], ('table', 'm'), order_by=[(1, d)], distinct=True, limit=lim))
            out.append(bql.select([(A, None), (B, None)], ('table', 'm'), order_by=[(A, d), (B, d)], distinct=True, limit=lim))
            out.append(bql.select([(B, None)], ('table', 'm'), order_by=[(C, d), (A, d)], distinct=True, limit=lim))
            out.append(bql.select([(A, None), (R, None)], ('table', 'm'), order_by=[(A, d)], limit=lim))
    # an output name that is also the name of another table column: ORDER BY takes the output column
    for d in ('ASC', 'DESC'):
        out.append(bql.select([(B, 'a'), (R, None)], ('table', 'm'), order_by=[(A, d)]))
        out.append(bql.select([(['neg', A], 'a'), (R, None)], ('table', 'm'), order_by=[(['col', 'a'], d), (2, 'ASC')]))
        out.append(bql.select([(A, 'b'), (B, 'a'), (R, None)], ('table', 'm'), order_by=[(['col', 'a'], d), (['col', 'b'], 'ASC')]))
        out.append(bql.select([(C, 'a'), (['fn', 'sum', [A]], 'b')], ('table', 'm'), order_by=[(['col', 'b'], d), (['col', 'a'], d)]))
    # aggregate queries ordered by aggregates / keys
    cnt = ['fn', 'count', [['star']]]
    for dirs in itertools.product(['ASC', 'DESC'], repeat=2):
        out.append(bql.select([(A, None), (['fn', 'sum', [B]], 's')], ('table', 'm'), order_by=[(['col', 's'], dirs[0]), (A, dirs[1])]))
        out.append(bql.select([(A, None), (B, None), (cnt, 'n')], ('table', 'm'), order_by=[(['fn', 'max', [C]], dirs[0]), (2, dirs[1])]))
        out.append(bql.select([(cnt, 'n')], ('table', 'm'), group_by=[A, B], order_by=[(B, dirs[0]), (A, dirs[1])]))
    # DISTINCT compares the rows, not their hashes: hash(-1) == hash(-2) and hash(-1.00) == hash(-2.00) in CPython
    m1, m2 = ['sub', A, ['const', 'int', 1]], ['sub', ['mul', A, ['const', 'int', 0]], ['const', 'int', 2]]
    h = ['sub', ['mod', R, ['const', 'int', 2]], ['const', 'int', 2]]                 # -2, -1, -2, -1, ...
    hd = ['div', ['sub', ['mod', R, ['const', 'int', 2]], ['const', 'int', 2]], ['const', 'int', 1]]
    for lim in (None, 1, 2, 3):
        out.append(bql.select([(h, 'h')], ('table', 'm'), distinct=True, limit=lim))
        out.append(bql.select([(hd, 'h')], ('table', 'm'), distinct=True, limit=lim))
        out.append(bql.select([(B, None), (h, 'h')], ('table', 'm'), distinct=True, order_by=[(1, 'DESC')], limit=lim))
        out.append(bql.select([(h, 'h'), (['fn', 'count', [['star']]], 'n')], ('table', 'm'), group_by=[1, ['mod', R, ['const', 'int', 4]]],
                              distinct=True, limit=lim))
    # the order of a FROM-subquery's rows is the order the outer query sees: SELECT *, top-n, DISTINCT, stable re-sort
    for d in ('ASC', 'DESC'):
        inner = bql.select([(A, None), (B, None), (R, None)], ('table', 'm'), order_by=[(A, d), (['neg', B], 'ASC')])
        hidden = bql.select([(R, None), (C, None)], ('table', 'm'), order_by=[(B, d), (A, 'DESC')])
        out.append(bql.select('*', ('subq', inner)))
        out.append(bql.select('*', ('subq', hidden)))
        out.append(bql.select([(['col', 'rid'], None)], ('subq', inner), limit=5))
        out.append(bql.select([(['col', 'a'], None)], ('subq', inner), distinct=True))
        out.append(bql.select([(['col', 'rid'], None), (['col', 'b'], None)], ('subq', inner), order_by=[(['col', 'b'], d)]))
        out.append(bql.select([(['col', 'c'], None)], ('subq', hidden), distinct=True, limit=3))
        out.append(bql.select('*', ('subq', bql.select('*', ('subq', inner))), limit=7))
    return [{'tables': [table], 'sel': s, 'text': bql.statement(s), 'matrix': True, 'via_ast': i % 3 != 0,
             } for i, s in enumerate(harness.force_aliases(s) for s in out)]


@st.composite
def random_case(draw):
    table = draw(gen.tables(max_cols=5, max_rows=8, null_p=0.3, types=gen.KEYTYPES))
    if draw(st.booleans()):
        sel = draw(gen.agg_selects(table, order=True))
    else:
        sel = draw(gen.plain_selects(table, order=True))
    if draw(st.integers(0, 3)) > 0:
        sel = harness.force_aliases(sel)
        return {'tables': [table], 'sel': sel, 'text': bql.statement(sel), 'via_ast': True}
    return {'tables': [table], 'sel': sel, 'text': bql.statement(sel, draw(gen.styles(parens=0.05)))}


def key_exprs_of(sel):
    """ORDER BY items resolved to (expression, descending)."""
    tl = sel['targets']
    names = [a if a is not None else (e[1] if e[0] == 'col' else None) for e, a in tl]
    out = []
    for k, d in sel['order_by'] or []:
        if isinstance(k, int):
            e = tl[k - 1][0]
        elif k[0] == 'col' and k[1] in names:
            e = tl[len(names) - 1 - names[::-1].index(k[1])][0]
        else:
            e = k
        out.append((e, d == 'DESC'))
    return out


def classify(sh, case, info_rows_before, keyvals, result_before_dl, result):
    sel = case['sel']
    ob = sel['order_by'] or []
    dirs = {d == 'DESC' for _, d in ob}
    tl = sel['targets']
    tnames = [a if a is not None else (e[1] if e[0] == 'col' else None) for e, a in tl]
    texprs = [e for e, _ in tl]
    hidden = any(not isinstance(k, int) and not (k[0] == 'col' and k[1] in tnames) and k not in texprs for k, _ in ob)
    ties = bool(ob) and (len(set(keyvals)) < len(keyvals) or len({k[0] for k in keyvals}) < len(keyvals))
    nulls = any(v is None for k in keyvals for v in k)
    sort_nt = bool(ob) and ((len(ob) >= 2 and len(dirs) == 2) or hidden) and ties and nulls
    distinct_nt = bool(sel['distinct']) and len(set(result_before_dl)) < len(result_before_dl)
    after_d = len(set(result_before_dl)) if sel['distinct'] else len(result_before_dl)
    limit_nt = sel['limit'] is not None and sel['limit'] < after_d
    if sort_nt:
        sh.count('nontrivial:sort')
    if distinct_nt:
        sh.count('nontrivial:distinct')
    if limit_nt:
        sh.count('nontrivial:limit')
    if hidden:
        sh.count('hidden_key')
    sh.count(f'keys:{len(ob)}')
    return sort_nt or distinct_nt or limit_nt


def prop_select(sh, case):
    fails, info = harness.compare_select(case)
    part = 'matrix' if case.get('matrix') else 'random'
    if 'undef' in info:
        sh.count('oracle_undefined')
        sh.record(None, False)
        return fails
    nontrivial = False
    if 'want' in info and case['sel']['targets'] != '*':
        sel = case['sel']
        probe = dict(sel, distinct=False, limit=None)
        keys = key_exprs_of(sel)
        kprobe = dict(probe, targets=list(sel['targets']) + [(e, f'ok{i}') for i, (e, _) in enumerate(keys)])
        r = harness.model(kprobe, case['tables'])
        r0 = harness.model(probe, case['tables'])
        if r[0] == 'ok' and r0[0] == 'ok':
            n = len(sel['targets'])
            keyvals = [row[n:] for row in r[3]]
            nontrivial = classify(sh, case, None, keyvals, r0[3], info['want'])
    if part == 'matrix':
        sh.count('matrix_queries')
    sh.record(jsonio.case_hash([case['sel'], case['tables']]), nontrivial,
              {'text': case['text'], 'result': repr(info.get('want'))[:200]} if nontrivial else None)
    return [(f'{part}:{s}', d) for s, d in fails]


# ------------------------------------------------------------------ model-free chain

def null_low(v):
    return (0, 0) if v is None else (1, v)


def prop_sorted(sh, case):
    fails = []
    sel = case['sel']
    keys = key_exprs_of(sel)
    aggregate = sel['group_by'] is not None or any(bql.is_aggregate(e) for e, _ in sel['targets'])
    n = len(sel['targets'])
    rid = ['fn', 'min', [['col', 'rid']]] if aggregate else ['col', 'rid']
    extra = [(e, f'ok{i}') for i, (e, _) in enumerate(keys)] + [(rid, 'rr')]
    gb = sel['group_by']
    if gb is not None:
        gb = list(gb) + [n + 1 + i for i, (e, _) in enumerate(keys) if not bql.is_aggregate(e)]
    base = dict(sel, targets=list(sel['targets']) + extra, group_by=gb, distinct=False, limit=None)
    unordered = dict(base, order_by=None)
    ordered = dict(base, order_by=[(n + 1 + i, 'DESC' if desc else 'ASC') for i, (_, desc) in enumerate(keys)])
    plain = dict(sel, distinct=False, limit=None)
    conn, _ = harness.connect(case['tables'])
    res = {}
    for name, s in (('U', unordered), ('S', ordered), ('P', plain), ('Q', sel)):
        r = harness.engine(conn, bql.to_ast(s))
        if r[0] != 'ok':
            if isinstance(r[1], (OverflowError, ArithmeticError)):
                sh.count('oracle_undefined')
                sh.record(None, False)
                return []
            fails.append((harness.exc_sig(r[1], 'sorted:raises'), f'{bql.statement(s)!r}: {r[1]!r}'))
            return fails
        res[name] = r[2]
    U, S, P, Q = res['U'], res['S'], res['P'], res['Q']
    text = bql.statement(sel)
    nk = len(keys)
    if sorted(map(repr, U)) != sorted(map(repr, S)):
        fails.append(('sorted:not-a-permutation', f'{text!r}\n unordered {U!r}\n ordered {S!r}'))
        return fails
    pos = {row[-1]: i for i, row in enumerate(U)}
    if len(pos) != len(U):
        sh.count('rid_not_unique')
    for x, y in zip(S, S[1:]):
        kx, ky = x[n:n + nk], y[n:n + nk]
        cmp = 0
        for (vx, vy), (_, desc) in zip(zip(kx, ky), keys):
            a, b = null_low(vx), null_low(vy)
            if a != b:
                cmp = -1 if (a < b) != desc else 1
                break
        if cmp > 0:
            fails.append(('sorted:out-of-order', f'{text!r}: {x!r} before {y!r}'))
            break
        if cmp == 0 and len(pos) == len(U) and pos[x[-1]] > pos[y[-1]]:
            fails.append(('sorted:unstable', f'{text!r}: tie {x!r} / {y!r} not in prior order'))
            break
    if [row[:n] for row in S] != P:
        fails.append(('sorted:hidden-vs-visible-keys', f'{text!r}\n with keys visible {[row[:n] for row in S]!r}\n original {P!r}'))
    want = P
    if sel['distinct']:
        want = list(dict.fromkeys(P))
    if sel['limit'] is not None:
        want = want[:sel['limit']]
    if Q != want:
        fails.append(('sorted:distinct-limit', f'{text!r}\n got {Q!r}\n want {want!r}'))
    nontrivial = classify(sh, case, None, [row[n:n + nk] for row in U], P, Q)
    sh.record(jsonio.case_hash([case['sel'], case['tables']]), nontrivial,
              {'text': text, 'ordered': repr(S)[:200]} if nontrivial else None, n=4)
    return fails


@st.composite
def sorted_case(draw):
    table = draw(gen.tables(max_cols=5, max_rows=8, null_p=0.3, types=gen.KEYTYPES))
    if draw(st.booleans()):
        sel = draw(gen.agg_selects(table, order=True))
    else:
        sel = draw(gen.plain_selects(table, order=True))
    return {'tables': [table], 'sel': harness.force_aliases(sel)}


def prop_limits(sh, case):
    fails = []
    table = matrix_table()
    conn, _ = harness.connect([table])
    size = len(table['rows'])
    for lim in (0, 1, size - 1, size, size + 1, 10**6, 2**63 - 1, 2**63, 10**30):
        for text, want in ((f'SELECT rid FROM #m LIMIT {lim}', [(r[0],) for r in table['rows']][:lim]),
                           (f'SELECT DISTINCT a FROM #m ORDER BY a DESC LIMIT {lim}', [(2,), (0,), (-1,), (None,)][:lim])):
            r = harness.engine(conn, text)
            if r[0] != 'ok':
                fails.append((harness.exc_sig(r[1], 'limits:raises'), f'{text!r}: {r[1]!r}'))
            elif r[2] != want:
                fails.append(('limits:wrong-rows', f'{text!r}: {len(r[2])} rows'))
            sh.record(text, lim < size, {'text': text})
    return fails



# ------------------------------------------------------------------ the same on Beancount-backed tables

_SCHEMA = {}


def ledger_schema():
    if not _SCHEMA:
        from vlib import ledgermodel, ledgers
        conn = ledgers.connect(ledgers.SAMPLE)
        entries, _, _ = ledgers.load(ledgers.SAMPLE)
        for name, t in ledgermodel.model_tables(conn, entries).items():
            _SCHEMA[name] = t['cols']
    return _SCHEMA


@st.composite
def ledger_case(draw):
    from vlib import ledgergen
    desc = draw(ledgergen.ledgers(max_txns=6, many_extras=True))
    schema = ledger_schema()
    name = draw(st.sampled_from(['postings', 'entries', 'transactions', 'transactions', 'prices', 'notes', 'notes', 'events', 'events', 'documents', 'documents']))
    pseudo = {'name': name, 'cols': schema[name]}
    if draw(st.booleans()):
        sel = draw(gen.agg_selects(pseudo, order=True))
    else:
        sel = draw(gen.plain_selects(pseudo, order=True))
    if not True:
        sel['limit'] = None
    return {'text': ledgergen.render(desc), 'table': name, 'sel': harness.force_aliases(sel), 'via_ast': True}


def prop_ledger(sh, case):
    from vlib import ledgermodel, ledgers
    entries, errors, options = ledgers.load(case['text'])
    conn = ledgers.connect_entries(entries, options)
    tabs = ledgermodel.model_tables(conn, entries)
    c = dict(case, tables=[], text=bql.statement(case['sel']))
    fails, info = harness.compare_select(c, conn=conn, model_tabs=tabs)
    if 'undef' in info:
        sh.count('oracle_undefined')
        sh.record(None, False)
        return fails
    nrows = len(tabs[case['table']]['rows'])
    nontrivial = nrows >= 3 and len(info.get('want', ())) >= 2
    sh.count('ledger:' + case['table'])
    sh.record(jsonio.case_hash([case['sel'], case['table'], case['text']]), nontrivial,
              {'text': c['text'], 'table_rows': nrows, 'result': repr(info.get('want'))[:200]} if nontrivial else None)
    return [(f'ledger:{s}', d) for s, d in fails]


PARTS = {'ledger': prop_ledger, 'matrix': prop_select, 'random': prop_select, 'sorted': prop_sorted, 'limits': prop_limits}


def run(sh):
    for case in sh.mine(matrix_cases()):
        for sig, detail in prop_select(sh, case):
            sh.fail(sig, detail, case, 'matrix')
        if case['sel']['from'][0] == 'subq':
            continue        # the model-free chain rewrites the target list: statements over a base table only
        for sig, detail in prop_sorted(sh, case):
            sh.fail(sig, detail, case, 'sorted')
    if sh.index == 0:
        for sig, detail in prop_limits(sh, None):
            sh.fail(sig, detail, None, 'limits')
    sh.search('random', random_case(), prop_select, quick=5000, thorough=150000)
    sh.search('sorted', sorted_case(), prop_sorted, quick=3000, thorough=80000)
    sh.search('ledger', ledger_case(), prop_ledger, quick=1600, thorough=50000)
