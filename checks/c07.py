"""C07 - result shape and naming: only the selected targets, in order, named by rule.

names     : generated aggregate / non-aggregate SELECTs with aliased, bare-column and expression
            targets in any mix, duplicate names, hidden GROUP BY / ORDER BY / HAVING helpers, printed
            with random whitespace, comments, parentheses and letter case; executed from text.
wildcard  : `SELECT *` over harness tables, the default table and FROM-subqueries (run after an
            unrelated subquery in the same process), and over every Beancount-backed table.
Oracle    : description length = number of targets (wildcard: the table's declared default columns
            in order), every row that long, values equal the reference model's, and the naming rule:
            alias, else column name, else a string that occurs verbatim in the statement text and
            parses back (as `SELECT <name>`) to the target's expression."""
from hypothesis import strategies as st

import beanquery.parser

from checks.c06 import ast_equal
from vlib import bql, gen, harness, jsonio, ledgers
from vlib.runner import exc_sig

ID = 'C07'
RULE = ('names: table + SELECT (aggregate or not) with 1..4 targets (alias / bare column / expression, duplicates allowed), '
        '0..4 hidden helper expressions from GROUP BY, HAVING and ORDER BY, printed in a random layout; non-trivial = '
        'at least one hidden helper expression and at least one target named by its expression text. wildcard: * over '
        'harness tables, default table, subqueries and all ledger tables. Distinct by hash of (text, table).')
ASSUMPTIONS = ['the naming oracle accepts any name that occurs verbatim in the statement and parses back to the same '
               'expression (it does not fix how redundant outer parentheses or adjacent comments are treated)']


@st.composite
def names_case(draw):
    table = draw(gen.tables(max_cols=4, max_rows=6, types=gen.KEYTYPES))
    if draw(st.booleans()):
        sel = draw(gen.agg_selects(table, limit=False))
    else:
        sel = draw(gen.plain_selects(table, limit=False, max_targets=4))
    # the shape does not depend on how many rows are delivered: LIMIT 0 / 1 / 3 on two cases in five
    sel['limit'] = draw(st.sampled_from([None, None, None, 0, 0, 1, 3, 100]))
    if draw(st.integers(0, 3)) == 0 and sel['targets'] != '*':
        # duplicate a target (same name twice)
        sel['targets'] = list(sel['targets']) + [draw(st.sampled_from(sel['targets']))]
    if len(sel['targets']) >= 2 and draw(st.integers(0, 3)) == 0:
        # two different expressions under one output name (the name is then not used by GROUP BY / ORDER BY)
        used = {k[1] for k in (sel['group_by'] or []) + [k for k, _ in (sel['order_by'] or [])] if isinstance(k, list) and k[0] == 'col'}
        i, j = draw(st.permutations(range(len(sel['targets']))))[:2]
        (ei, ai), (ej, aj) = sel['targets'][i], sel['targets'][j]
        name = ai if ai is not None else (ei[1] if ei[0] == 'col' else None)
        old = aj if aj is not None else (ej[1] if ej[0] == 'col' else None)
        if name is not None and name not in used and old not in used and ei != ej:
            tl = list(sel['targets'])
            tl[j] = (ej, name)
            sel['targets'] = tl
    style = bql.Style(gen.Rnd(draw(st.randoms(use_true_random=False))), parens=draw(st.sampled_from([0.0, 0.05, 0.15])),
                      case=draw(st.booleans()), space=True, comments=draw(st.booleans()), uplus=False, numforms=False)
    ttexts = []
    text = bql.statement(sel, style, ttexts)
    return {'tables': [table], 'sel': sel, 'text': text, 'ttexts': ttexts}


def check_names(case, desc, fails):
    sel = case['sel']
    text = case['text']
    for i, ((e, alias), d) in enumerate(zip(sel['targets'], desc)):
        name = d.name
        if alias is not None:
            if name != alias:
                fails.append(('name:alias', f'{text!r}: target {i} named {name!r}, alias {alias!r}'))
        elif e[0] == 'col':
            if name != e[1]:
                fails.append(('name:column', f'{text!r}: target {i} named {name!r}, column {e[1]!r}'))
        else:
            if not isinstance(name, str) or name not in text:
                fails.append(('name:not-source-text', f'{text!r}: target {i} named {name!r}'))
                continue
            try:
                back = beanquery.parser.parse('SELECT ' + name)
                ok = len(back.targets) == 1 and back.targets[0].name is None and ast_equal(
                    back.targets[0].expression, bql.to_ast(bql.select([(e, None)])).targets[0].expression)
            except Exception:  # noqa: BLE001
                ok = False
            if not ok:
                fails.append(('name:does-not-parse-back', f'{text!r}: target {i} named {name!r}'))


def prop_names(sh, case):
    fails, info = harness.compare_select(case)
    if 'undef' in info:
        sh.count('oracle_undefined')
        sh.record(None, False)
        return fails
    sel = case['sel']
    hidden = 0
    named_by_text = sum(1 for e, a in sel['targets'] if a is None and e[0] != 'col')
    if 'desc' in info:
        desc, rows = info['desc'], info['got']
        n = len(sel['targets'])
        if len(desc) != n:
            fails.append(('shape:description-length', f"{case['text']!r}: {len(desc)} columns for {n} targets"))
        if any(len(r) != len(desc) for r in rows):
            fails.append(('shape:row-length', f"{case['text']!r}: {[len(r) for r in rows][:5]} vs {len(desc)}"))
        if len(desc) == n:
            check_names(case, desc, fails)
        tl = [e for e, _ in sel['targets']]
        tnames = [a if a is not None else (e[1] if e[0] == 'col' else None) for e, a in sel['targets']]
        for k in (sel['group_by'] or []) + [k for k, _ in (sel['order_by'] or [])]:
            if not isinstance(k, int) and k not in tl and not (k[0] == 'col' and k[1] in tnames):
                hidden += 1
        if sel['having'] is not None:
            hidden += 1
    nontrivial = hidden >= 1 and named_by_text >= 1
    sh.count(f'hidden:{min(hidden, 3)}')
    sh.count(f'text_named:{min(named_by_text, 3)}')
    sh.record(jsonio.case_hash([case['text'], case['tables']]), nontrivial,
              {'text': case['text'], 'names': [d.name for d in info.get('desc', ())]} if nontrivial else None)
    return fails


@st.composite
def wildcard_case(draw):
    table = draw(gen.tables(max_cols=5, max_rows=5, types=gen.KEYTYPES))
    other = draw(gen.tables(name='u', max_cols=3, max_rows=3, types=gen.KEYTYPES))
    kind = draw(st.sampled_from(['table', 'default', 'subq', 'subq', 'subq2']))
    inner = None
    if kind in ('subq', 'subq2'):
        inner = draw(gen.agg_selects(table, limit=False) if draw(st.booleans()) else gen.plain_selects(table, limit=False))
        inner['limit'] = None
        # unique output names, so that they stay addressable (duplicate names: C08 known finding)
        seen = set()
        tl = []
        for i, (e, a) in enumerate(inner['targets']):
            # an un-aliased expression is named by its source text, and keeps that name through the sub-select
            name = a if a is not None else (e[1] if e[0] == 'col' else bql.expr(e))
            if name in seen or (a is None and e[0] != 'col' and draw(st.booleans())):
                a = f'u{i}'
                name = a
            seen.add(name)
            tl.append((e, a))
        inner['targets'] = tl
    first = draw(gen.plain_selects(other, limit=False, order=False, distinct=False))
    first['limit'] = None
    return {'tables': [table, other], 'kind': kind, 'inner': inner, 'first': harness.force_aliases(first),
            'distinct': draw(st.booleans()), 'nest': draw(st.integers(0, 1))}


def prop_wildcard(sh, case):
    fails = []
    table = case['tables'][0]
    kind = case['kind']
    default = table['name'] if kind == 'default' else None
    conn, _ = harness.connect(case['tables'], default)
    # an unrelated statement over a subquery with other column names runs first in the same process
    warm = bql.select('*', ('subq', case['first']))
    harness.engine(conn, bql.statement(warm))
    if kind == 'table':
        q = f"SELECT * FROM #{table['name']}"
        want_names = [n for n, _ in table['cols']]
        want_rows = [tuple(r) for r in table['rows']]
    elif kind == 'default':
        q = 'SELECT *'
        want_names = [n for n, _ in table['cols']]
        want_rows = [tuple(r) for r in table['rows']]
    else:
        itext = bql.statement(case['inner'])
        r = harness.engine(conn, itext)
        if r[0] != 'ok':
            if isinstance(r[1], (OverflowError, ArithmeticError)):
                sh.record(None, False)
                return []
            return [(exc_sig(r[1], 'wildcard:inner-raises'), f'{itext!r}: {r[1]!r}')]
        want_names = [d.name for d in r[1]]
        want_types = [d.datatype for d in r[1]]
        want_rows = r[2]
        q = f'SELECT * FROM ({itext})'
        if kind == 'subq2':
            q = f'SELECT * FROM ({q})'
    if kind in ('table', 'default'):
        # aliases of an earlier statement over the table are not columns of it
        harness.engine(conn, bql.to_ast(bql.select([(['col', table['cols'][0][0]], 'zq_alias')], ('table', table['name']))))
        # one parsed statement serves every table of that name: it is first executed over a table with other
        # columns on another connection (and, the parse being memoised per process, over the tables of earlier cases)
        stmt = harness.parsed(q if case.get('nest', 0) % 2 == 0 else f'SELECT * FROM ({q})')
        other = {'name': table['name'], 'cols': [('zz', 'int')] + [(n + '_', t) for n, t in table['cols'][:2]],
                 'rows': [tuple([1] + [None] * len(table['cols'][:2]))]}
        harness.engine(harness.connect([other], default)[0], stmt)
        r = harness.engine(conn, stmt)
    else:
        r = harness.engine(conn, q)
    if r[0] != 'ok':
        return [(exc_sig(r[1], 'wildcard:raises'), f'{q!r}: {r[1]!r}')]
    names = [d.name for d in r[1]]
    if names != want_names:
        fails.append(('wildcard:names', f'{q!r}: {names} want {want_names}'))
    elif kind in ('subq', 'subq2') and [d.datatype for d in r[1]] != want_types:
        fails.append(('wildcard:datatypes', f'{q!r}: {[d.datatype for d in r[1]]} want {want_types}'))
    if r[2] != want_rows:
        fails.append(('wildcard:rows', f'{q!r}: {r[2]!r} want {want_rows!r}'))
    sh.count(f'wildcard:{kind}')
    sh.record(jsonio.case_hash([q, case['tables']]), kind in ('subq', 'subq2') and len(want_names) >= 2,
              {'text': q, 'names': names})
    return fails


def prop_ledger_star(sh, case):
    """`SELECT * FROM #table` over every Beancount-backed table of a fixed ledger."""
    fails = []
    conn = ledgers.connect(ledgers.SAMPLE)
    for name, table in sorted(conn.tables.items()):
        if not name:
            continue
        q = f'SELECT * FROM #{name}'
        want = list(table.wildcard_columns)
        declared = list(table.columns)
        # aliases given by an earlier statement over the same table (here and on another connection) are not columns
        for c in (conn, ledgers.connect(ledgers.SAMPLE)):
            harness.engine(c, f'SELECT {declared[0]} AS zz_alias, {declared[-1]} AS yy_alias FROM #{name} ORDER BY zz_alias')
        r = harness.engine(conn, q)
        if r[0] != 'ok':
            fails.append((exc_sig(r[1], 'ledgerstar:raises'), f'{q!r}: {r[1]!r}'))
            continue
        names = [d.name for d in r[1]]
        if names != want:
            fails.append(('ledgerstar:names', f'{q!r}: {names} want {want}'))
        if [n for n in declared if n in want] != want:
            fails.append(('ledgerstar:not-in-declaration-order', f'{name}: {want} vs {declared}'))
        if any(len(row) != len(want) for row in r[2]):
            fails.append(('ledgerstar:row-length', q))
        for colname in want:
            one = harness.engine(conn, f'SELECT {colname} FROM #{name}')
            if one[0] != 'ok' or [d.name for d in one[1]] != [colname]:
                fails.append(('ledgerstar:column', f'{name}.{colname}'))
        sh.record(q, len(r[2]) > 0, {'text': q, 'names': names})
    return fails


ATTR_TARGETS = [
    ('postings', ['position.units', 'position.units.number', 'position.cost.date', 'weight.currency', 'entry.narration', 'price.number',
                  'position . units . currency', "meta['ref']", "entry.meta['when']", 'entry.date']),
    ('accounts', ['open.date', 'close.date', 'open.meta', 'open.account', 'open.currencies']),
    ('prices', ['amount.number', 'amount.currency']),
    ('balances', ['amount.number', 'discrepancy.number']),
]


def prop_attr_names(sh, case):
    """Targets that read attributes / subscripts of structured columns are named by their source text."""
    fails = []
    conn = ledgers.connect(ledgers.SAMPLE)
    for table, exprs in ATTR_TARGETS:
        for combo in ([e] for e in exprs):
            pass
        q = f"SELECT {', '.join(exprs)} FROM #{table}"
        r = harness.engine(conn, q)
        if r[0] != 'ok':
            fails.append((exc_sig(r[1], 'attrnames:raises'), f'{q!r}: {r[1]!r}'))
            continue
        names = [d.name for d in r[1]]
        if names != exprs:
            fails.append(('attrnames:not-source-text', f'{q!r}: named {names}'))
        if any(len(row) != len(exprs) for row in r[2]):
            fails.append(('attrnames:row-length', q))
        # and as columns of a subquery they stay distinct (addressable through *)
        r2 = harness.engine(conn, f'SELECT * FROM ({q})')
        if r2[0] == 'ok' and ([d.name for d in r2[1]] != names or r2[2] != r[2]):
            fails.append(('attrnames:subquery-star', f'{q!r}: {[d.name for d in r2[1]]}'))
        sh.record(q, True, {'text': q, 'names': names})
    return fails


PARTS = {'names': prop_names, 'wildcard': prop_wildcard, 'ledgerstar': prop_ledger_star, 'attrnames': prop_attr_names}


def run(sh):
    if sh.index == 0:
        for sig, detail in prop_ledger_star(sh, None):
            sh.fail(sig, detail, None, 'ledgerstar')
        for sig, detail in prop_attr_names(sh, None):
            sh.fail(sig, detail, None, 'attrnames')
    sh.search('names', names_case(), prop_names, quick=1200, thorough=40000)
    sh.search('wildcard', wildcard_case(), prop_wildcard, quick=600, thorough=20000)
