"""C11 - ledger tables present the Beancount directives faithfully and completely.

For generated ledgers (loaded through the Beancount loader, and a variant in which some postings
lose their metadata, as padding-generated postings do) every column of every table is selected and
compared with a direct traversal of the directives that does not use beanquery; the metadata
lookup functions are compared with dictionary lookups."""
import datetime

from hypothesis import strategies as st

from beancount.core import convert, data, getters, inventory, position
from beancount.core.compare import hash_entry

from vlib import bql, harness, jsonio, ledgergen, ledgers
from vlib.runner import exc_sig

ID = 'C11'
RULE = ('ledger = generated description (15 accounts over the five roots, commodities with metadata, 1..10 transactions: '
        'simple / multi-posting / purchases at cost with labels / sales reducing tracked lots with price and gain / '
        '@ conversions; tags, links, metadata of every value type on entries and postings; price, note, event, document, '
        'query, custom, pad+balance directives; accounts closed) rendered to text and loaded; optionally some postings '
        'get meta=None. Every column of every table and every metadata function is compared with a direct traversal. '
        'Non-trivial = >= 4 directive types, a transaction with >= 3 postings, a posting at cost, a price annotation, and '
        'metadata on an entry and on a posting. Distinct by hash of the ledger text.')
ASSUMPTIONS = ['the Beancount loader (3.2.3) and its booking are trusted: the oracle starts from the loaded directives',
               'cost_label of a posting without cost may be NULL or the empty string',
               'other_accounts is compared as a set']

TYPED = {'transactions': data.Transaction, 'prices': data.Price, 'balances': data.Balance, 'notes': data.Note,
         'events': data.Event, 'documents': data.Document}
RENAMES = {'balances': {'discrepancy': 'diff_amount'}, 'commodities': {'name': 'currency'}}
_OTHER = []
META_PROBES = ['ref', 'note', 'when', 'amt', 'flagged', 'k1', 'checkNo', 'checkno', 'inv-id', 'REF', 'filename', 'lineno', 'missing', 'name']


@st.composite
def ledger_case(draw):
    desc = draw(ledgergen.ledgers(empty_narrations=True))
    text = ledgergen.render(desc)
    strip = draw(st.sets(st.integers(0, 40), max_size=4)) if draw(st.integers(0, 2)) == 0 else set()
    return {'text': text, 'strip_meta': sorted(strip)}


def load_case(case):
    entries, errors, options = ledgers.load(case['text'])
    if case.get('strip_meta'):
        # postings without metadata (what padding used to generate): rebuild the transactions
        entries = list(entries)
        n = 0
        for i, e in enumerate(entries):
            if isinstance(e, data.Transaction):
                ps = []
                for p in e.postings:
                    ps.append(p._replace(meta=None) if n in case['strip_meta'] else p)
                    n += 1
                entries[i] = e._replace(postings=ps)
    return entries, errors, options


def eq(a, b):
    if isinstance(a, (set, frozenset, list, tuple)) and isinstance(b, (set, frozenset, list, tuple)) \
            and not hasattr(a, '_fields') and not hasattr(b, '_fields'):
        return sorted(map(repr, a)) == sorted(map(repr, b)) and len(a) == len(b)
    if isinstance(a, dict) and isinstance(b, dict):
        return dict(a) == dict(b)
    if a is None or b is None:
        return a is None and b is None
    return type(a) is type(b) and a == b or (a == b and isinstance(a, (str, int)) and isinstance(b, (str, int)) and type(a) is type(b))


def posting_columns(entry, posting, balance):
    pm = posting.meta
    cost = posting.cost
    desc = ' | '.join(x for x in (entry.payee, entry.narration) if x)
    return {
        'id': hash_entry(entry), 'type': 'transaction',
        'filename': None if pm is None else pm['filename'], 'lineno': None if pm is None else pm['lineno'],
        'location': None if pm is None else f"{pm['filename']}:{pm['lineno']}:",
        'date': entry.date, 'year': entry.date.year, 'month': entry.date.month, 'day': entry.date.day,
        'flag': entry.flag, 'payee': entry.payee, 'narration': entry.narration, 'description': desc,
        'tags': entry.tags, 'links': entry.links, 'meta': pm, 'posting_flag': posting.flag, 'account': posting.account,
        'other_accounts': {p.account for p in entry.postings if p is not posting},
        'number': posting.units.number, 'currency': posting.units.currency,
        'cost_number': cost.number if cost else None, 'cost_currency': cost.currency if cost else None,
        'cost_date': cost.date if cost else None, 'cost_label': cost.label if cost else ('', None),
        'position': position.Position(posting.units, posting.cost), 'price': posting.price,
        'weight': convert.get_weight(posting), 'balance': balance, 'entry': entry,
    }


def entry_columns(entry):
    txn = isinstance(entry, data.Transaction)
    return {
        'id': hash_entry(entry), 'type': type(entry).__name__.lower(), 'filename': entry.meta['filename'],
        'lineno': entry.meta['lineno'], 'date': entry.date, 'year': entry.date.year, 'month': entry.date.month,
        'day': entry.date.day, 'flag': entry.flag if txn else None, 'payee': entry.payee if txn else None,
        'narration': entry.narration if txn else None,
        'description': ' | '.join(x for x in (entry.payee, entry.narration) if x) if txn else None,
        'tags': entry.tags if txn else None, 'links': entry.links if txn else None, 'meta': entry.meta,
    }


def compare_table(conn, name, expected_rows, fails, sh, where=''):
    """expected_rows: list of {column: expected value}; selects every column of the table at once."""
    table = conn.tables[name]
    cols = list(table.columns)
    missing = [c for c in cols if expected_rows and c not in expected_rows[0]]
    if missing:
        sh.extra.setdefault('columns_without_oracle', [])
        for c in missing:
            if f'{name}.{c}' not in sh.extra['columns_without_oracle']:
                sh.extra['columns_without_oracle'].append(f'{name}.{c}')
    cols = [c for c in cols if c not in missing]
    q = f"SELECT {', '.join(cols)} FROM #{name}"
    r = harness.engine(conn, bql.to_ast(bql.select([(['col', c], None) for c in cols], ('table', name))))
    if r[0] != 'ok':
        fails.append((exc_sig(r[1], f'{name}:raises'), f'{q!r}: {r[1]!r}'))
        return
    rows = r[2]
    if len(rows) != len(expected_rows):
        fails.append((f'{name}:row-count', f'{len(rows)} rows, {len(expected_rows)} expected'))
        return
    for i, (row, want) in enumerate(zip(rows, expected_rows)):
        for c, v in zip(cols, row):
            w = want[c]
            ok = any(eq(v, x) for x in w) if isinstance(w, tuple) and c == 'cost_label' else eq(v, w)
            if not ok:
                fails.append((f'{name}.{c}', f'row {i}: got {v!r}, want {w!r}'))
                break
    sh.count('columns_compared', len(cols) * len(rows))


def prop_ledger(sh, case):
    fails = []
    entries, errors, options = load_case(case)
    if errors:
        # a ledger the generator got wrong is discarded and counted, never reported
        sh.count('discarded_ledger_with_load_errors')
        sh.record(None, False)
        return []
    # a connection over another ledger lives in the same process: neither may see the other's accounts or commodities
    if not _OTHER:
        _OTHER.append(ledgers.connect(ledgers.SAMPLE))
        _OTHER.append(harness.engine(_OTHER[0], harness.parsed('SELECT account, open.date, close.date FROM #accounts'))[2])
    conn = ledgers.connect_entries(entries, options)
    # period reports run first on the same connection: the tables a later statement reads are those of the full ledger
    for warm in ('SELECT count(*) AS n FROM OPEN ON 2019-03-01 CLOSE ON 2020-03-01 CLEAR',
                 'PRINT FROM OPEN ON 2019-03-01 CLOSE ON 2020-03-01 CLEAR',
                 'SELECT count(*) AS n FROM CLOSE ON 2019-06-01'):
        harness.engine(conn, harness.parsed(warm))
    again = harness.engine(_OTHER[0], harness.parsed('SELECT account, open.date, close.date FROM #accounts'))
    if again[0] != 'ok' or again[2] != _OTHER[1]:
        fails.append(('accounts-of-another-connection-changed', f'{again[2]!r} was {_OTHER[1]!r}'))
    # postings
    expected = []
    bal = inventory.Inventory()
    for e in entries:
        if isinstance(e, data.Transaction):
            for p in e.postings:
                bal.add_position(p)
                expected.append(posting_columns(e, p, inventory.Inventory(bal.get_positions())))
    compare_table(conn, 'postings', expected, fails, sh)
    compare_table(conn, 'entries', [entry_columns(e) for e in entries], fails, sh)
    for name, cls in TYPED.items():
        ren = RENAMES.get(name, {})
        want = []
        for e in entries:
            if isinstance(e, cls):
                # the oracle is the directive: every column named like one of its attributes must equal it (a column that
                # corresponds to no attribute has no oracle and is listed under columns_without_oracle)
                want.append({c: getattr(e, ren.get(c, c)) for c in conn.tables[name].columns if hasattr(e, ren.get(c, c))})
        compare_table(conn, name, want, fails, sh)
    oc = getters.get_account_open_close(entries)
    compare_table(conn, 'accounts', [{'account': a, 'open': o, 'close': c} for a, (o, c) in oc.items()], fails, sh)
    commodities = [e for e in entries if isinstance(e, data.Commodity)]
    cm = {}
    for e in commodities:
        cm[e.currency] = e
    compare_table(conn, 'commodities', [{'meta': e.meta, 'date': e.date, 'name': e.currency} for e in cm.values()], fails, sh)

    # metadata functions on postings
    plist = [(e, p) for e in entries if isinstance(e, data.Transaction) for p in e.postings]
    opens = {a: o for a, (o, c) in oc.items()}
    closes = {a: c for a, (o, c) in oc.items()}
    targets = []
    wants = []

    def call(fn, *args):
        return ['fn', fn, [a if isinstance(a, list) else ['const', 'str', a] for a in args]]
    acc, cur = ['col', 'account'], ['col', 'currency']
    for k in META_PROBES:
        targets += [(call('meta', k), f'm_{k}'), (call('entry_meta', k), f'e_{k}'), (call('any_meta', k), f'a_{k}'),
                    (call('open_meta', acc, k), f'o_{k}'), (call('commodity_meta', cur, k), f'c_{k}'),
                    (call('currency_meta', cur, k), f'cc_{k}'), (['item', ['col', 'meta'], k], f's_{k}'),
                    (['item', ['attr', ['col', 'entry'], 'meta'], k], f't_{k}')]
    targets += [(call('open_date', acc), 'od'), (call('close_date', acc), 'cd'), (call('open_meta', acc), 'om'),
                (call('commodity_meta', cur), 'cmm'), (call('open_date', 'Assets:Nope'), 'odn'),
                (call('open_meta', 'Assets:Nope', 'x'), 'omn'), (call('commodity_meta', 'NOPE', 'x'), 'cmn')]
    for e, p in plist:
        row = []
        pm = p.meta
        for k in META_PROBES:
            em = e.meta.get(k)
            row.append(None if pm is None else pm.get(k))
            row.append(em)
            row.append(None if pm is None else pm.get(k, em))
            o = opens.get(p.account)
            row.append(None if o is None else o.meta.get(k))
            c = cm.get(p.units.currency)
            row.append(None if c is None else c.meta.get(k))
            row.append(None if c is None else c.meta.get(k))
            row.append(None if pm is None else pm.get(k))
            row.append(em)
        o = opens.get(p.account)
        c = closes.get(p.account)
        cmd = cm.get(p.units.currency)
        row += [None if o is None else o.date, None if c is None else c.date, None if o is None else o.meta,
                None if cmd is None else cmd.meta, None, None, None]
        wants.append(row)
    r = harness.engine(conn, bql.to_ast(bql.select(targets, ('table', 'postings'))))
    if r[0] != 'ok':
        fails.append((exc_sig(r[1], 'metafunctions:raises'), f'{r[1]!r}'))
    elif len(r[2]) != len(wants):
        fails.append(('metafunctions:row-count', f'{len(r[2])} vs {len(wants)}'))
    else:
        names = [d.name for d in r[1]]
        for i, (row, want) in enumerate(zip(r[2], wants)):
            for n, v, w in zip(names, row, want):
                if not eq(v, w):
                    fails.append((f'metafunctions:{n.split("_")[0]}', f'posting {i} {n}: got {v!r}, want {w!r}'))
                    break
    kinds = {type(e).__name__ for e in entries}
    txns = [e for e in entries if isinstance(e, data.Transaction)]
    nontrivial = (len(kinds) >= 4 and any(len(t.postings) >= 3 for t in txns)
                  and any(p.cost for t in txns for p in t.postings) and any(p.price for t in txns for p in t.postings)
                  and any(set(t.meta) - {'filename', 'lineno'} for t in txns)
                  and any(p.meta and set(p.meta) - {'filename', 'lineno'} for t in txns for p in t.postings))
    for kname in kinds:
        sh.count(f'directive:{kname}')
    if case.get('strip_meta'):
        sh.count('postings_without_meta')
    sh.record(jsonio.case_hash(case), nontrivial,
              {'ledger': case['text'][:1500], 'postings': len(plist)} if nontrivial and len(sh.samples) < 2 else None)
    return fails


PARTS = {'ledger': prop_ledger}


def run(sh):
    sh.search('ledger', ledger_case(), prop_ledger, quick=6000, thorough=200000)
