"""C16 - text and CSV rendering are aligned, complete and faithful to the values.

Generated result tables (every supported datatype, NULLs, negatives, differing precisions incl.
very small decimals, many currencies, empty results / inventories) x all option combinations.
Invariants: rectangular output, fixed column offsets derived from the rule line, NULL placeholder,
one line per row unless `expand`, centred headers cut only under `narrow`, decimal-point alignment,
and read-back of every cell to the value it shows (amounts at the display precision).  CSV: header
plus one record per (expanded) row, one field per column, same formatted value as the text cell."""
import csv
import datetime
import io
import re
from decimal import Decimal as D

from hypothesis import strategies as st

import beanquery
from beancount.core import amount, display_context, inventory, position
from beanquery import query_render

from vlib import jsonio
from vlib.runner import exc_sig

ID = 'C16'
RULE = ('table = 1..5 columns of types int, decimal, str, date, bool, set, dict, object, amount, position, cost, inventory; '
        '0..6 rows, NULL probability 0.2; display context built from all amounts in the table; options boxed, unicode, '
        'spaced, expand, narrow, nullvalue in {"", NULL, -, n/a}, listsep in {2 spaces, ", ", " | ", ";"}. Non-trivial = '
        '>= 3 rows, a NULL, two non-NULL cells of different rendered width in one column, and an amount-like column. '
        'Distinct by hash of (table, options).')
ASSUMPTIONS = ['width is measured in code points; strings are printable ASCII/Latin letters without line breaks or trailing blanks',
               'the display context knows every currency of the table (as a ledger-derived context does)',
               'CSV fields are compared with text cells after removing blanks and list separators']

CURRENCIES = ['USD', 'EUR', 'HOOL', 'BTC', 'X', 'VERYLONGCUR']
NAMES = ['a', 'amount', 'b c', 'sum(position)', 'x' * 25, 'n']


def numbers(small=False):
    base = st.builds(lambda m, e: D(m).scaleb(-e), st.integers(-10**7, 10**7), st.integers(0, 4))
    extra = st.sampled_from([D('0'), D('0.00'), D('0.05'), D('-0.001'), D('1E+3'), D('12345678.9'), D('0.00000001'), D('-0.0000005'), D('1E-7')])
    return st.one_of(base, base, extra) if not small else base


def amounts():
    return st.builds(amount.Amount, numbers(True), st.sampled_from(CURRENCIES))


def costs():
    return st.builds(position.Cost, numbers(True).map(abs), st.sampled_from(CURRENCIES[:3]),
                     st.none() | st.dates(datetime.date(2000, 1, 1), datetime.date(2030, 12, 31)), st.sampled_from([None, None, 'l', 'lot', 'a b', 'a-much-longer-label']))


def positions():
    return st.builds(position.Position, amounts(), st.none() | costs())


def inventories():
    def build(ps):
        inv = inventory.Inventory()
        for p in ps:
            inv.add_position(p)
        return inv
    return st.lists(positions(), max_size=4).map(build)


TEXT = st.text(alphabet='abcXYZ 0123.,:-_/#éü', max_size=12).map(lambda s: s.rstrip())
TYPES = {
    'int': (int, st.integers(-10**6, 10**6)),
    'decimal': (D, numbers()),
    'str': (str, TEXT),
    'date': (datetime.date, st.dates(datetime.date(1000, 1, 1), datetime.date(9999, 12, 31))),
    'bool': (bool, st.booleans()),
    'set': (set, st.sets(st.sampled_from(['tag', 'a', 'long-tag-name', 'Assets:Cash', 'x1']), max_size=3)),
    'dict': (dict, st.dictionaries(st.sampled_from(['k', 'key2']), st.integers(0, 9) | TEXT, max_size=2)),
    'object': (object, st.one_of(st.integers(-99, 99), TEXT, st.booleans(), numbers())),
    'amount': (amount.Amount, amounts()),
    'position': (position.Position, positions()),
    'cost': (position.Cost, costs()),
    'inventory': (inventory.Inventory, inventories()),
}
AMOUNTLIKE = ('amount', 'position', 'cost', 'inventory')


@st.composite
def table_case(draw):
    ncols = draw(st.integers(1, 5))
    kinds = [draw(st.sampled_from(list(TYPES))) for _ in range(ncols)]
    names = [draw(st.sampled_from(NAMES)) for _ in range(ncols)]
    nrows = draw(st.sampled_from([0, 1, 2, 3, 4, 6]))
    rows = []
    for _ in range(nrows):
        rows.append(tuple(None if draw(st.integers(0, 4)) == 0 else draw(TYPES[k][1]) for k in kinds))
    opts = {'boxed': draw(st.booleans()), 'unicode': draw(st.booleans()), 'spaced': draw(st.booleans()),
            'expand': draw(st.booleans()), 'narrow': draw(st.booleans()),
            'nullvalue': draw(st.sampled_from(['', '', 'NULL', '-', 'n/a'])),
            'listsep': draw(st.sampled_from(['  ', ', ', ' | ', ';']))}
    return {'kinds': kinds, 'names': names, 'rows': rows, 'opts': opts, 'commas': draw(st.integers(0, 4)) == 0}


def all_amounts(value):
    if isinstance(value, amount.Amount):
        yield value
    elif isinstance(value, position.Cost):
        yield amount.Amount(value.number, value.currency)
    elif isinstance(value, position.Position):
        yield value.units
        if value.cost is not None:
            yield amount.Amount(value.cost.number, value.cost.currency)
    elif isinstance(value, inventory.Inventory):
        for p in value.get_positions():
            yield from all_amounts(p)


def display_context_for(rows):
    dcontext = display_context.DisplayContext()
    for row in rows:
        for v in row:
            for a in all_amounts(v):
                dcontext.update(a.number, a.currency)
    return dcontext


NUM = r'-?\d[\d,]*(?:\.\d+)?(?:E[-+]?\d+)?'


def read_amount(text):
    m = re.fullmatch(rf'\s*({NUM})\s+(\S+)\s*', text)
    if not m:
        return None
    return D(m.group(1).replace(',', '')), m.group(2)


def split_line(line, spans):
    return [line[a:b] for a, b in spans]


def prop_render(sh, case):
    fails = []
    kinds, rows, opts = case['kinds'], [tuple(r) for r in case['rows']], case['opts']
    columns = [beanquery.Column(n, TYPES[k][0]) for n, k in zip(case['names'], kinds)]
    dcontext = display_context_for(rows)
    if case.get('commas'):
        dcontext.set_commas(True)        # the ledger option render_commas
    out = io.StringIO()
    try:
        query_render.render_text(columns, rows, dcontext, out, **opts)
    except Exception as exc:  # noqa: BLE001
        return [(exc_sig(exc, 'text:raises'), f'{case!r}: {exc!r}'[:1500])]
    text = out.getvalue()
    lines = text.split('\n')
    if lines and lines[-1] == '':
        lines.pop()
    shown = f'{opts!r}\n{text}'
    ncols = len(columns)
    # ---- rectangular
    if len({len(line) for line in lines}) > 1:
        fails.append(('text:ragged-lines', shown))
        return finish(sh, case, fails)
    boxed = opts['boxed']
    rule = lines[2] if boxed else lines[1]
    header = lines[1] if boxed else lines[0]
    body = lines[3:-1] if boxed else lines[2:]
    # ---- column spans from the rule line
    fill = '─' if opts['unicode'] else '-'
    spans = [(m.start(), m.end()) for m in re.finditer(re.escape(fill) + '+', rule)]
    if boxed:
        # in boxed mode the rule is continuous (+-...-+-...-+): cut at the junctions instead
        junction = '[├┼┤]' if opts['unicode'] else r'\+'
        cuts = [m.start() for m in re.finditer(junction, rule)]
        spans = [(a + 2, b - 1) for a, b in zip(cuts, cuts[1:])]
    if len(spans) != ncols:
        fails.append(('text:column-count', shown))
        return finish(sh, case, fails)
    widths = [b - a for a, b in spans]
    sep = (' │ ' if opts['unicode'] else ' | ') if boxed else '  '
    # ---- header
    hcells = split_line(header, spans)
    for name, cell, w in zip(case['names'], hcells, widths):
        want = name[:w].center(w) if opts['narrow'] else name.center(w)
        if cell != want:
            fails.append(('text:header', f'header cell {cell!r}, expected {want!r}\n{shown}'))
        if not opts['narrow'] and len(name) > w:
            fails.append(('text:header-cut-without-narrow', shown))
    # ---- body lines -> logical rows
    data_lines = [ln for ln in body]
    for ln in data_lines:
        for (a, b), (a2, b2) in zip(spans, spans[1:]):
            if ln[b:a2] != sep:
                fails.append(('text:separator-offset', f'line {ln!r}\n{shown}'))
                break
    expected_lines = []
    for row in rows:
        n = 1
        if opts['expand']:
            for v in row:
                if isinstance(v, inventory.Inventory):
                    n = max(n, len(v.get_positions()))
        expected_lines.append(n)
    total = sum(expected_lines) + (len(rows) if opts['spaced'] else 0)
    if len(data_lines) != total:
        fails.append(('text:line-count', f'{len(data_lines)} body lines, expected {total}\n{shown}'))
        return finish(sh, case, fails)
    # ---- cells
    idx = 0
    cells_by_col = [[] for _ in columns]
    for row, n in zip(rows, expected_lines):
        block = [split_line(ln, spans) for ln in data_lines[idx:idx + n]]
        idx += n
        if opts['spaced']:
            spacer = data_lines[idx]
            idx += 1
            if any(c.strip() for c in split_line(spacer, spans)):
                fails.append(('text:spacer-not-empty', shown))
        for c, (kind, value) in enumerate(zip(kinds, row)):
            texts = [blk[c] for blk in block]
            cells_by_col[c].append((value, texts))
            problem = read_back(kind, value, texts, opts, dcontext)
            if problem:
                fails.append((f'text:read-back:{kind}', f'{problem}\n{shown}'))
    # ---- decimal point alignment
    for c, kind in enumerate(kinds):
        if kind not in ('decimal', 'amount'):
            continue
        points = set()
        for value, texts in cells_by_col[c]:
            if value is None:
                continue
            cell = texts[0]
            m = re.search(r'-?\d[\d,]*', cell)
            if not m or 'E' in cell:
                continue
            points.add(m.end())
        if len(points) > 1:
            fails.append(('text:decimal-point-alignment', f'column {c} ({kind})\n{shown}'))
    # ---- CSV
    cout = io.StringIO()
    try:
        query_render.render_csv(columns, rows, dcontext, cout, **opts)
    except Exception as exc:  # noqa: BLE001
        fails.append((exc_sig(exc, 'csv:raises'), f'{case!r}: {exc!r}'[:1500]))
        return finish(sh, case, fails)
    records = list(csv.reader(io.StringIO(cout.getvalue())))
    shown_csv = f'{opts!r}\n{cout.getvalue()}'
    if not records or records[0] != case['names']:
        fails.append(('csv:header', shown_csv))
    elif any(len(r) != ncols for r in records):
        fails.append(('csv:field-count', shown_csv))
    elif len(records) - 1 != sum(expected_lines):
        fails.append(('csv:record-count', f'{len(records) - 1} records, expected {sum(expected_lines)}\n{shown_csv}'))
    else:
        sepchars = re.escape(''.join(set(opts['listsep'].strip() + ',')))
        canon = lambda s: re.sub(rf'[\s{sepchars}]', '', s)  # noqa: E731
        tlines = [split_line(ln, spans) for ln in data_lines if not opts['spaced'] or any(c.strip() for c in split_line(ln, spans)) or True]
        # drop spacer lines: they follow each logical row
        tl = []
        i = 0
        for n in expected_lines:
            tl += [split_line(ln, spans) for ln in data_lines[i:i + n]]
            i += n + (1 if opts['spaced'] else 0)
        for rec, trow in zip(records[1:], tl):
            for f, t in zip(rec, trow):
                if canon(f) != canon(t):
                    fails.append(('csv:field-differs-from-text', f'csv {f!r} text {t!r}\n{shown_csv}\n{shown}'))
                    break
        # a string field is the string itself: blanks that belong to the value are not padding
        at = 1
        for row, n in zip(rows, expected_lines):
            for j, k in enumerate(kinds):
                if k == 'str' and row[j] is not None and records[at][j] != row[j]:
                    fails.append(('csv:string-field-differs-from-value', f'csv {records[at][j]!r} value {row[j]!r}\n{shown_csv}'))
            at += n
    return finish(sh, case, fails)


def read_back(kind, value, texts, opts, dcontext):
    """None if the cell texts show `value`; otherwise a description of the problem."""
    null = opts['nullvalue']
    cell = texts[0]
    if value is None:
        if cell.strip() != null.strip() or any(t.strip() for t in texts[1:]):
            return f'NULL shown as {texts!r}, placeholder {null!r}'
        return None
    try:
        if kind == 'int':
            return None if int(cell) == value and not any(t.strip() for t in texts[1:]) else f'{value!r} shown as {cell!r}'
        if kind == 'decimal':
            return None if D(cell.strip()) == value else f'{value!r} shown as {cell!r}'
        if kind == 'date':
            return None if datetime.date.fromisoformat(cell.strip()) == value else f'{value!r} shown as {cell!r}'
        if kind == 'bool':
            return None if cell.strip() == ('TRUE' if value else 'FALSE') else f'{value!r} shown as {cell!r}'
        if kind == 'str':
            return None if cell.rstrip() == value else f'{value!r} shown as {cell!r}'
        if kind in ('dict', 'object'):
            return None if cell.rstrip() == str(value) else f'{value!r} shown as {cell!r}'
        if kind == 'set':
            items = [x for x in cell.strip().split(opts['listsep']) if x] if value else []
            return None if sorted(i.strip() for i in items) == sorted(value) else f'{value!r} shown as {cell!r}'
        if kind == 'amount':
            got = read_amount(cell)
            want = (dcontext.quantize(value.number, value.currency), value.currency)
            return None if got == want else f'{value!r} shown as {cell!r} (reads {got!r}, display precision {want!r})'
        if kind == 'cost':
            m = re.fullmatch(rf'\s*({NUM})\s+(\S+?)\s*(?:,\s*(\d{{4}}-\d\d-\d\d))?\s*(?:,\s*"(.*)")?\s*', cell)
            if not m:
                return f'{value!r} shown as {cell!r}'
            got = (D(m.group(1).replace(',', '')), m.group(2), m.group(3), m.group(4))
            want = (dcontext.quantize(value.number, value.currency), value.currency,
                    value.date.isoformat() if value.date else None, value.label)
            return None if got == want else f'{value!r} shown as {cell!r}'
        if kind == 'position':
            return None if read_position(cell, dcontext) == norm_position(value, dcontext) else f'{value!r} shown as {cell!r}'
        if kind == 'inventory':
            want = sorted(norm_position(p, dcontext) for p in value.get_positions())
            if opts['expand']:
                parts = [t for t in texts if t.strip()]
            else:
                parts = [p for p in re.split(re.escape(opts['listsep']) if opts['listsep'].strip() else r'\s{2,}(?=-?\d)', cell) if p.strip()]
                if not opts['listsep'].strip():
                    parts = re.findall(rf'{NUM}\s+\S+(?:\s+\{{[^}}]*\}})?', cell)
            got = sorted(read_position(p, dcontext) for p in parts)
            return None if got == want else f'{value!r} shown as {texts!r} (reads {got!r}, want {want!r})'
    except Exception as exc:  # noqa: BLE001
        return f'{value!r} shown as {texts!r}: does not read back ({exc!r})'
    return None


def norm_position(p, dcontext):
    units = (dcontext.quantize(p.units.number, p.units.currency), p.units.currency)
    cost = None if p.cost is None else (dcontext.quantize(p.cost.number, p.cost.currency), p.cost.currency)
    return (units, cost is not None, cost or ())


def read_position(text, dcontext):
    m = re.fullmatch(rf'\s*({NUM})\s+(\S+)\s*(?:\{{\s*({NUM})\s+(\S+?)\s*\}})?\s*', text)
    if not m:
        return ('unreadable', text)
    units = (D(m.group(1).replace(',', '')), m.group(2))
    cost = (D(m.group(3).replace(',', '')), m.group(4)) if m.group(3) else None
    return (units, cost is not None, cost or ())


def finish(sh, case, fails):
    rows, kinds = case['rows'], case['kinds']
    has_null = any(v is None for r in rows for v in r)
    varied = False
    for c in range(len(kinds)):
        lens = {len(str(r[c])) for r in rows if r[c] is not None}
        if len(lens) >= 2:
            varied = True
    nontrivial = len(rows) >= 3 and has_null and varied and any(k in AMOUNTLIKE for k in kinds)
    for k in set(kinds):
        sh.count(f'type:{k}')
    sh.count('opts:' + ''.join(k[0] if case['opts'][k] else '-' for k in ('boxed', 'unicode', 'spaced', 'expand', 'narrow')))
    sh.record(jsonio.case_hash(case), nontrivial,
              {'kinds': kinds, 'opts': case['opts'], 'rows': len(rows)} if nontrivial else None, n=2)
    return fails


PARTS = {'render': prop_render}


def run(sh):
    sh.search('render', table_case(), prop_render, quick=30000, thorough=600000)
