"""C06 - parsing inverts printing; the shipped parser equals the grammar.

roundtrip : untyped statement ASTs of all four kinds (every clause combination, expression
            trees sampled uniformly over parent x child x position, every literal form,
            identifier spellings incl. keyword-prefixed and contextual words) are printed in a
            canonical and in random redundant styles and parsed back: deep type-strict equality.
diff      : the same texts, and token/character mutations of them, are parsed by the shipped
            parser and by a parser compiled at run time from bql.ebnf: same AST or both reject."""
import dataclasses
import datetime
import os
from decimal import Decimal

from hypothesis import strategies as st

import beanquery.parser
from beanquery.parser import ast as A

from vlib import bql, gen, jsonio
from vlib.runner import exc_sig

ID = 'C06'
RULE = ('roundtrip: generated statement IR -> text in 3 styles (canonical; redundant parentheses/unary plus/letter '
        'case/whitespace/comments/number spellings) -> parse -> deep type-strict comparison with the AST built '
        'directly from the IR. Non-trivial = the statement nests an operator under a different operator '
        '(precedence/associativity matters) or uses at least two clause/literal forms beyond the statement keyword, a table and integer literals. '
        'diff: valid and mutated texts through shipped parser and grammar-compiled parser. Distinct by hash of IR/text.')
ASSUMPTIONS = ['the unparser (vlib/bql.py, ~150 lines mirroring the grammar) is trusted: a missing parenthesis there '
               'would show as a round-trip failure on the unchanged tree, which is kept quiet over all seeds tried',
               'strings containing both quote characters and identifiers equal to reserved words are not expressible '
               'and are not generated; `null` as a column name and open/close/clear as the first word of a FROM '
               'expression are not expressible either']

IDENT_FIXED = ['a', 'b', 'x1', '_', '_a', 'a_b', 'account', 'in_', 'inx', 'nota', 'ordering', 'select1', 'asc1', 'isx',
               'fromage', 'ast', 'byte', 'or_', 'andy', 'limits', 'trueish', 'falsey', 'nullable', 'groupby',
               'open', 'close', 'clear', 'on', 'at', 'between', 'year', 'sum', 'count']
NOT_FIRST_IN_FROM = {'open', 'close', 'clear'}


def idents():
    base = st.one_of(
        st.sampled_from(IDENT_FIXED),
        st.from_regex(r'[a-z_][a-z0-9_]{0,6}', fullmatch=True))
    return base.filter(lambda s: s not in bql.KEYWORDS and s != 'null')


def literals():
    ints = st.one_of(st.integers(0, 20), st.integers(0, 10**6), st.integers(10**18, 10**21)).map(
        lambda v: ['const', 'int', v])
    decs = st.builds(lambda a, b: ['const', 'decimal', Decimal(f'{a}.{b}')], st.integers(0, 10**5),
                     st.from_regex(r'[0-9]{0,6}', fullmatch=True))
    dates = st.dates(datetime.date(1, 1, 1), datetime.date(9999, 12, 31)).map(lambda v: ['const', 'date', v])
    strs = st.one_of(
        st.text(alphabet="ab Z09_;,()*/%-'\n#.[]", max_size=8),
        st.text(alphabet='ab Z09_;,()*/%-"\n#.[]', max_size=8),
        st.sampled_from(['', ' ', 'SELECT', "it's", 'say "hi"', '/* c */', '; c', '%s', "'", '"', "''", '""',
                         '^Assets:.*', '\\d+', 'a\\b'])).map(lambda v: ['const', 'str', v])
    bools = st.booleans().map(lambda v: ['const', 'bool', v])
    null = st.just(['const', 'null', None])
    return st.one_of(ints, decs, dates, strs, bools, null)


BIN = list(bql.ARITH) + list(bql.CMP)
KINDS = ['col', 'const', 'list', 'ph', 'neg', 'not', 'isnull', 'isnotnull', 'between', 'and', 'or', 'fn', 'attr',
         'item', 'subq'] + BIN


@st.composite
def untyped(draw, depth, allow_subq=True):
    if depth <= 0:
        k = draw(st.sampled_from(['col', 'const', 'col', 'const', 'list', 'ph', 'fn0']))
    else:
        k = draw(st.sampled_from(KINDS))
    d = depth - 1

    def sub():
        return draw(untyped(d, allow_subq))
    if k == 'col':
        return ['col', draw(idents())]
    if k == 'const':
        return draw(literals())
    if k == 'list':
        # NULL inside a list literal is excluded by construction: known finding C06 list-null-dropped
        return ['list', draw(st.lists(literals().filter(lambda x: x[1] != 'null'), min_size=1, max_size=3))]
    if k == 'ph':
        return ['ph', draw(st.none() | idents())]
    if k == 'fn0':
        return ['fn', draw(idents()), []]
    if k in ('neg', 'not', 'isnull', 'isnotnull'):
        return [k, sub()]
    if k in BIN:
        return [k, sub(), sub()]
    if k == 'between':
        return ['between', sub(), sub(), sub()]
    if k in ('and', 'or'):
        return [k, [sub() for _ in range(draw(st.integers(2, 3)))]]
    if k == 'fn':
        if draw(st.integers(0, 9)) == 0:
            return ['fn', draw(idents()), [['star']]]
        return ['fn', draw(idents()), [sub() for _ in range(draw(st.integers(0, 3)))]]
    if k in ('attr', 'item'):
        # the operand of . and [] is a primary: column, call, placeholder, or another . / []
        o = draw(untyped(d, allow_subq).filter(lambda e: e[0] in ('col', 'fn', 'ph', 'attr', 'item')))
        if k == 'attr':
            return ['attr', o, draw(idents())]
        key = draw(literals().filter(lambda x: x[1] == 'str'))[2]
        return ['item', o, key]
    if k == 'subq':
        if not allow_subq:
            return ['col', draw(idents())]
        return ['subq', draw(selects(max(d - 1, 0), nested=True))]
    raise AssertionError(k)


def first_word(e):
    """Leftmost identifier-like word the printed expression starts with (lower case), if any."""
    k = e[0]
    if k == 'col':
        return e[1]
    if k == 'fn':
        return e[1]
    if k in ('attr', 'item', 'isnull', 'isnotnull', 'between') or k in BIN:
        return first_word(e[1])
    if k in ('and', 'or'):
        return first_word(e[1][0])
    return None


@st.composite
def froms(draw, depth, kinds=('table', 'subq', 'expr')):
    kind = draw(st.sampled_from(kinds))
    if kind == 'table':
        return ('table', draw(st.one_of(st.just(''), st.from_regex(r'[A-Za-z_][A-Za-z0-9_]{0,5}', fullmatch=True))))
    if kind == 'subq':
        return ('subq', draw(selects(max(depth - 1, 0), nested=True)))
    e = draw(st.none() | untyped(depth).filter(lambda x: first_word(x) not in NOT_FIRST_IN_FROM))
    dates = st.dates(datetime.date(1900, 1, 1), datetime.date(2100, 12, 31))
    open_ = draw(st.none() | dates)
    close = draw(st.none() | st.just(True) | dates)
    clear = draw(st.booleans())
    if e is None and open_ is None and close is None and not clear:
        clear = True
    return ('expr', e, open_, close, clear)


@st.composite
def selects(draw, depth, nested=False):
    if draw(st.integers(0, 5)) == 0:
        targets = '*'
    else:
        targets = [(draw(untyped(depth)), draw(st.none() | idents()))
                   for _ in range(draw(st.integers(1, 3)))]
    opt = lambda s: draw(st.none() | s)  # noqa: E731
    keys = st.one_of(st.integers(0, 12), untyped(depth))
    group_by = opt(st.lists(keys, min_size=1, max_size=3))
    having = opt(untyped(depth)) if group_by is not None else None
    order_by = opt(st.lists(st.tuples(keys, st.sampled_from([None, 'ASC', 'DESC'])), min_size=1, max_size=3))
    pivot_by = opt(st.lists(st.integers(0, 9) | idents(), min_size=2, max_size=2))
    return bql.select(targets, opt(froms(depth)), opt(untyped(depth)), group_by, having, order_by, pivot_by,
                      opt(st.integers(0, 10**6)), draw(st.booleans()))


@st.composite
def statements(draw):
    kind = draw(st.sampled_from(['select', 'select', 'select', 'balances', 'journal', 'print']))
    depth = draw(st.integers(0, 3))
    if kind == 'select':
        return draw(selects(depth))
    opt = lambda s: draw(st.none() | s)  # noqa: E731
    if kind == 'balances':
        return {'kind': 'balances', 'at': opt(idents()), 'from': opt(froms(depth, ('expr',))), 'where': opt(untyped(depth))}
    if kind == 'journal':
        acct = opt(literals().filter(lambda x: x[1] == 'str'))
        return {'kind': 'journal', 'account': None if acct is None else acct[2], 'at': opt(idents()),
                'from': opt(froms(depth, ('expr',)))}
    return {'kind': 'print', 'from': opt(froms(depth, ('expr',)))}


@st.composite
def roundtrip_case(draw):
    s = draw(statements())
    texts = [bql.statement(s)]
    for _ in range(2):
        style = bql.Style(gen.Rnd(draw(st.randoms(use_true_random=False))), parens=draw(st.sampled_from([0.0, 0.2, 0.5])),
                          case=draw(st.booleans()), space=draw(st.booleans()), comments=draw(st.booleans()),
                          uplus=draw(st.booleans()), numforms=draw(st.booleans()))
        texts.append(bql.statement(s, style) + draw(st.sampled_from(['', '', ';', ' ;', '\n', ' ; trailing comment'])))
    return {'stmt': s, 'texts': texts}


# ---------------------------------------------------------------------------- oracles

def ast_equal(a, b):
    if isinstance(a, list) and isinstance(b, list):
        # the parser may deliver a list subclass (TatSu closure); the elements are what counts
        return len(a) == len(b) and all(ast_equal(x, y) for x, y in zip(a, b))
    if type(a) is not type(b):
        return False
    if isinstance(a, A.Node):
        return all(ast_equal(getattr(a, f.name), getattr(b, f.name)) for f in dataclasses.fields(a) if f.compare)
    if isinstance(a, list):
        return len(a) == len(b) and all(ast_equal(x, y) for x, y in zip(a, b))
    if isinstance(a, Decimal):
        return a.as_tuple() == b.as_tuple()
    return a == b


def shipped(text):
    return beanquery.parser.parser.BQLParser().parse(text, semantics=beanquery.parser.BQLSemantics())


_MODEL = []


def model_parser():
    if not _MODEL:
        import tatsu
        path = os.path.join(os.path.dirname(beanquery.parser.__file__), 'bql.ebnf')
        with open(path) as f:
            grammar = f.read()

        class Sem(beanquery.parser.BQLSemantics):
            def _default(self, value, typename=None):
                if typename is not None:
                    typename = typename.split('::')[0]
                return super()._default(value, typename)
        model = tatsu.compile(grammar)
        _MODEL.append(lambda text: model.parse(text, semantics=Sem()))
    return _MODEL[0]


def has_null_in_list(s):
    return any(isinstance(n, A.Constant) and isinstance(n.value, list) and None in n.value[1:]
               for n in bql.to_ast(s).walk())


def strip_list_nulls(node):
    node = dataclasses.replace(node) if isinstance(node, A.Node) else node
    if isinstance(node, A.Constant) and isinstance(node.value, list):
        return A.Constant([v for v in node.value if v is not None])
    if isinstance(node, A.Node):
        for f in dataclasses.fields(node):
            if f.compare:
                setattr(node, f.name, strip_list_nulls(getattr(node, f.name)))
        return node
    if isinstance(node, list):
        return [strip_list_nulls(x) for x in node]
    return node


def shape(s):
    """Classification of a statement for the non-triviality rule and the coverage histogram."""
    pairs = set()
    forms = set()

    def ex(e, parent=None, pos=None):
        k = e[0]
        if parent is not None and k not in ('col', 'const'):
            pairs.add((parent, k, pos))
        if k == 'const':
            forms.add('lit:' + e[1])
        elif k == 'list':
            forms.add('lit:list')
        elif k == 'subq':
            st_(e[1])
        else:
            for i, c in enumerate(bql.children(e)):
                ex(c, k, min(i, 2))

    def frm(f):
        if f is None:
            return
        forms.add('from:' + f[0])
        if f[0] == 'subq':
            st_(f[1])
        elif f[0] == 'expr':
            if f[1] is not None:
                ex(f[1])
            forms.add(f'from:open={f[2] is not None},close={"date" if isinstance(f[3], datetime.date) else f[3]},clear={bool(f[4])}')

    def st_(s):
        forms.add('stmt:' + s['kind'])
        if s['kind'] == 'select':
            if s['targets'] == '*':
                forms.add('targets:*')
            else:
                for e, a in s['targets']:
                    ex(e)
                    if a:
                        forms.add('alias')
            for key in ('where', 'having'):
                if s.get(key) is not None:
                    forms.add(key)
                    ex(s[key])
            for key in ('group_by', 'order_by'):
                if s.get(key) is not None:
                    forms.add(key)
                    for item in s[key]:
                        item = item[0] if key == 'order_by' else item
                        if not isinstance(item, int):
                            ex(item)
            for key in ('pivot_by', 'limit', 'distinct'):
                if s.get(key):
                    forms.add(key)
        else:
            if s.get('where') is not None:
                ex(s['where'])
        frm(s.get('from'))
    st_(s)
    return pairs, forms


def prop_roundtrip(sh, case):
    fails = []
    s = case['stmt']
    want = bql.to_ast(s)
    for i, text in enumerate(case['texts']):
        try:
            got = shipped(text)
        except Exception as exc:  # noqa: BLE001
            name = type(exc).__name__
            sig = 'roundtrip:rejected' if 'Failed' in name or 'Parse' in name else exc_sig(exc, 'roundtrip')
            fails.append((sig, f'style {i}: {text!r}: {name}: {str(exc)[:200]}'))
            continue
        if not ast_equal(got, want):
            if has_null_in_list(s) and ast_equal(strip_list_nulls(got), strip_list_nulls(want)):
                fails.append(('roundtrip:list-null-dropped', f'{text!r} parsed {got!r}'))
                continue
            fails.append(('roundtrip:different-ast', f'style {i}: {text!r}\n parsed {got!r}\n wanted {want!r}'))
    pairs, forms = shape(s)
    nested = {p for p in pairs if p[0] != p[1]}
    extra_forms = {f for f in forms if not f.startswith('stmt:') and f not in ('from:table', 'targets:*', 'lit:int')}
    nontrivial = bool(nested) or len(extra_forms) >= 2
    for p in pairs:
        sh.count('pair:%s>%s@%d' % p)
    for f in forms:
        sh.count('form:' + f)
    sh.record(jsonio.case_hash(case['stmt']), nontrivial,
              {'texts': case['texts'][:2]} if nontrivial and len(case['texts'][0]) < 300 else None, n=len(case['texts']))
    return fails


TOKENS = ['SELECT', 'FROM', 'WHERE', 'GROUP', 'BY', 'ORDER', 'HAVING', 'AND', 'OR', 'NOT', 'IN', 'IS', 'NULL', 'AS',
          'DISTINCT', 'LIMIT', 'PIVOT', 'BALANCES', 'JOURNAL', 'PRINT', 'OPEN', 'CLOSE', 'CLEAR', 'ON', 'AT', 'BETWEEN',
          'ASC', 'DESC', 'TRUE', 'FALSE', '(', ')', ',', '*', '+', '-', '/', '%', '=', '!=', '<', '<=', '>', '>=', '~', '!~',
          '.', '[', ']', ';', '%s', '%(a)s', '#t', '#', 'a', 'b', 'f', '1', '2.5', '.5', '1.', '2020-01-01', "'x'", '"y"',
          '/*', '*/', "'", '"']


@st.composite
def diff_case(draw):
    kind = draw(st.sampled_from(['valid', 'mutate', 'mutate', 'tokens']))
    if kind == 'tokens':
        toks = draw(st.lists(st.sampled_from(TOKENS), min_size=0, max_size=14))
        return {'text': ' '.join(toks), 'kind': kind}
    s = draw(statements())
    style = bql.Style(gen.Rnd(draw(st.randoms(use_true_random=False))), parens=0.2, case=draw(st.booleans()),
                      space=draw(st.booleans()), comments=draw(st.booleans()), uplus=True, numforms=True)
    text = bql.statement(s, style)
    if kind == 'valid':
        return {'text': text, 'kind': kind}
    words = text.split(' ')
    for _ in range(draw(st.integers(1, 2))):
        m = draw(st.sampled_from(['del', 'dup', 'swap', 'ins', 'chardel', 'charins']))
        if not words:
            break
        i = draw(st.integers(0, len(words) - 1))
        if m == 'del':
            del words[i]
        elif m == 'dup':
            words.insert(i, words[i])
        elif m == 'swap' and len(words) > 1:
            j = draw(st.integers(0, len(words) - 1))
            words[i], words[j] = words[j], words[i]
        elif m == 'ins':
            words.insert(i, draw(st.sampled_from(TOKENS)))
        elif m == 'chardel' and words[i]:
            c = draw(st.integers(0, len(words[i]) - 1))
            words[i] = words[i][:c] + words[i][c + 1:]
        elif m == 'charins':
            c = draw(st.integers(0, len(words[i])))
            words[i] = words[i][:c] + draw(st.sampled_from("()'\",.;*%-+ ~#0a")) + words[i][c:]
    return {'text': ' '.join(words), 'kind': 'mutate'}


def _parse(fn, text):
    try:
        return 'ok', fn(text)
    except Exception as exc:  # noqa: BLE001
        import tatsu
        if isinstance(exc, tatsu.exceptions.ParseException):
            return 'reject', getattr(exc, 'pos', None)
        return 'raise', exc


def prop_diff(sh, case):
    fails = []
    text = case['text']
    a = _parse(shipped, text)
    b = _parse(model_parser(), text)
    if a[0] == 'raise' or b[0] == 'raise':
        # non-parse exceptions (semantic actions on literals) must at least agree in kind
        if a[0] != b[0] or type(a[1]) is not type(b[1]):
            fails.append(('diff:exception-disagree', f'{text!r}: shipped {a!r} grammar {b!r}'))
    elif a[0] != b[0]:
        fails.append((f'diff:shipped-{a[0]}-grammar-{b[0]}', f'{text!r}'))
    elif a[0] == 'ok' and not ast_equal(a[1], b[1]):
        fails.append(('diff:different-ast', f'{text!r}\n shipped {a[1]!r}\n grammar {b[1]!r}'))
    elif a[0] == 'reject' and a[1] != b[1]:
        fails.append(('diff:different-error-position', f'{text!r}: shipped pos {a[1]} grammar pos {b[1]}'))
    sh.count(f'diff:{case["kind"]}:{a[0]}')
    # pure garbage is not credited: the text must get beyond its first keyword
    nontrivial = a[0] == 'ok' or (a[0] == 'reject' and (a[1] or 0) > 8)
    sh.record(jsonio.case_hash(text), nontrivial, {'text': text, 'outcome': a[0]} if nontrivial and len(text) < 200 else None)
    return fails


def prop_codegen(sh, case):
    """Supplement (not the deciding step): regenerating parser.py from bql.ebnf gives the shipped file."""
    import tatsu
    d = os.path.dirname(beanquery.parser.__file__)
    with open(os.path.join(d, 'bql.ebnf')) as f:
        grammar = f.read()
    with open(os.path.join(d, 'parser.py')) as f:
        shipped_src = f.read()
    try:
        src = tatsu.to_python_sourcecode(grammar, name='BQL')
    except Exception as exc:  # noqa: BLE001
        sh.extra['codegen_identical'] = f'grammar does not compile: {exc!r}'[:200]
        return [('codegen:grammar-does-not-compile', repr(exc))]
    sh.extra['codegen_identical'] = src == shipped_src
    sh.record('codegen', False)
    return []


PARTS = {'roundtrip': prop_roundtrip, 'diff': prop_diff, 'codegen': prop_codegen}


def run(sh):
    if sh.index == 0:
        for sig, detail in prop_codegen(sh, None):
            sh.fail(sig, detail, None, 'codegen')
    sh.search('roundtrip', roundtrip_case(), prop_roundtrip, quick=1600, thorough=60000)
    sh.search('diff', diff_case(), prop_diff, quick=1600, thorough=60000)
