"""C06 - parsing inverts printing; the shipped parser equals the grammar.

roundtrip : untyped statement ASTs of all four kinds (every clause combination, expression
            trees sampled uniformly over parent x child x position, every literal form,
            identifier spellings incl. keyword-prefixed and contextual words) are printed in a
            canonical and in random redundant styles and parsed back: deep type-strict equality.
diff      : the same texts, and token/character mutations of them, are parsed by the shipped
            parser and by a parser compiled at run time from bql.ebnf: same AST or both reject."""
import dataclasses
import datetime
import os
from decimal import Decimal

from hypothesis import strategies as st

import beanquery.parser
from beanquery.parser import ast as A

from vlib import bql, gen, jsonio
from vlib.runner import exc_sig

ID = 'C06'
RULE = ('roundtrip: generated statement IR -> text in 3 styles (canonical; redundant parentheses/unary plus/letter '
        'case/whitespace/comments/number spellings) -> parse -> deep type-strict comparison with the AST built '
        'directly from the IR. Non-trivial = the statement nests an operator under a different operator '
        '(precedence/associativity matters) or uses at least two clause/literal forms beyond the statement keyword, a table and integer literals. '
        'diff: valid and mutated texts through shipped parser and grammar-compiled parser. Distinct by hash of IR/text.')
ASSUMPTIONS = ['the unparser (vlib/bql.py, ~150 lines mirroring the grammar) is trusted: a missing parenthesis there '
               'would show as a round-trip failure on the unchanged tree, which is kept quiet over all seeds tried',
               'strings containing both quote characters and identifiers equal to reserved words are not expressible '
               'and are not generated; `null` as a column name and open/close/clear as the first word of a FROM '
               'expression are not expressible either']

IDENT_FIXED = ['a', 'b', 'x1', '_', '_a', 'a_b', 'account', 'in_', 'inx', 'nota', 'ordering', 'select1', 'asc1', 'isx',
               'fromage', 'ast', 'byte', 'or_', 'andy', 'limits', 'trueish', 'falsey', 'nullable', 'groupby',
               'open', 'close', 'clear', 'on', 'at', 'between', 'year', 'sum', 'count']
NOT_FIRST_IN_FROM = {'open', 'close', 'clear'}


def idents():
    base = st.one_of(
        st.sampled_from(IDENT_FIXED),
        st.from_regex(r'[a-z_][a-z0-9_]{0,6}', fullmatch=True))
    return base.filter(lambda s: s not in bql.KEYWORDS and s != 'null')


def literals():
    ints = st.one_of(st.integers(0, 20), st.integers(0, 10**6), st.integers(10**18, 10**21)).map(
        lambda v: ['const', 'int', v])
    decs = st.one_of(
        st.builds(lambda a, b: ['const', 'decimal', Decimal(f'{a}.{b}')], st.integers(0, 10**5),
                  st.from_regex(r'[0-9]{0,6}', fullmatch=True)),
        # more significant digits than the decimal context keeps (28): a literal is exact
        st.builds(lambda a, b: ['const', 'decimal', Decimal(f'{a}.{b}')], st.integers(0, 10**31),
                  st.from_regex(r'[0-9]{20,40}', fullmatch=True)),
        st.sampled_from(['1.00000000000000000000000000001', '123456789012345678901234567890.5', '0.' + '0' * 40 + '1',
                         '9' * 30 + '.' + '9' * 30]).map(lambda v: ['const', 'decimal', Decimal(v)]))
    dates = st.dates(datetime.date(1, 1, 1), datetime.date(9999, 12, 31)).map(lambda v: ['const', 'date', v])
    strs = st.one_of(
        st.text(alphabet="ab Z09_;,()*/%-'\n#.[]", max_size=8),
        st.text(alphabet='ab Z09_;,()*/%-"\n#.[]', max_size=8),
        st.sampled_from(['', ' ', 'SELECT', "it's", 'say "hi"', '/* c */', '; c', '%s', "'", '"', "''", '""',
                         '^Assets:.*', '\\d+', 'a\\b'])).map(lambda v: ['const', 'str', v])
    bools = st.booleans().map(lambda v: ['const', 'bool', v])
    null = st.just(['const', 'null', None])
    return st.one_of(ints, decs, dates, strs, bools, null)


BIN = list(bql.ARITH) + list(bql.CMP)
KINDS = ['col', 'const', 'list', 'ph', 'neg', 'not', 'isnull', 'isnotnull', 'between', 'and', 'or', 'fn', 'attr',
         'item', 'subq'] + BIN


@st.composite
def untyped(draw, depth, allow_subq=True):
    if depth <= 0:
        k = draw(st.sampled_from(['col', 'const', 'col', 'const', 'list', 'ph', 'fn0']))
    else:
        k = draw(st.sampled_from(KINDS))
    d = depth - 1

    def sub():
        return draw(untyped(d, allow_subq))
    if k == 'col':
        return ['col', draw(idents())]
    if k == 'const':
        return draw(literals())
    if k == 'list':
        return ['list', draw(st.lists(literals(), min_size=1, max_size=3))]
    if k == 'ph':
        return ['ph', draw(st.none() | idents())]
    if k == 'fn0':
        return ['fn', draw(idents()), []]
    if k in ('neg', 'not', 'isnull', 'isnotnull'):
        return [k, sub()]
    if k in BIN:
        return [k, sub(), sub()]
    if k == 'between':
        return ['between', sub(), sub(), sub()]
    if k in ('and', 'or'):
        return [k, [sub() for _ in range(draw(st.integers(2, 3)))]]
    if k == 'fn':
        if draw(st.integers(0, 9)) == 0:
            return ['fn', draw(idents()), [['star']]]
        return ['fn', draw(idents()), [sub() for _ in range(draw(st.integers(0, 3)))]]
    if k in ('attr', 'item'):
        # the operand of . and [] is a primary: column, call, placeholder, or another . / []
        o = draw(untyped(d, allow_subq).filter(lambda e: e[0] in ('col', 'fn', 'ph', 'attr', 'item')))
        if k == 'attr':
            return ['attr', o, draw(idents())]
        key = draw(literals().filter(lambda x: x[1] == 'str'))[2]
        return ['item', o, key]
    if k == 'subq':
        if not allow_subq:
            return ['col', draw(idents())]
        return ['subq', draw(selects(max(d - 1, 0), nested=True))]
    raise AssertionError(k)


def first_word(e):
    """Leftmost identifier-like word the printed expression starts with (lower case), if any."""
    k = e[0]
    if k == 'col':
        return e[1]
    if k == 'fn':
        return e[1]
    if k in ('attr', 'item', 'isnull', 'isnotnull', 'between') or k in BIN:
        return first_word(e[1])
    if k in ('and', 'or'):
        return first_word(e[1][0])
    return None


@st.composite
def froms(draw, depth, kinds=('table', 'subq', 'expr')):
    kind = draw(st.sampled_from(kinds))
    if kind == 'table':
        return ('table', draw(st.one_of(st.just(''), st.from_regex(r'[A-Za-z_][A-Za-z0-9_]{0,5}', fullmatch=True))))
    if kind == 'subq':
        return ('subq', draw(selects(max(depth - 1, 0), nested=True)))
    e = draw(st.none() | untyped(depth).filter(lambda x: first_word(x) not in NOT_FIRST_IN_FROM))
    dates = st.dates(datetime.date(1900, 1, 1), datetime.date(2100, 12, 31))
    open_ = draw(st.none() | dates)
    close = draw(st.none() | st.just(True) | dates)
    clear = draw(st.booleans())
    if e is None and open_ is None and close is None and not clear:
        clear = True
    return ('expr', e, open_, close, clear)


@st.composite
def selects(draw, depth, nested=False):
    if draw(st.integers(0, 5)) == 0:
        targets = '*'
    else:
        targets = [(draw(untyped(depth)), draw(st.none() | idents()))
                   for _ in range(draw(st.integers(1, 3)))]
    opt = lambda s: draw(st.none() | s)  # noqa: E731
    keys = st.one_of(st.integers(0, 12), untyped(depth))
    group_by = opt(st.lists(keys, min_size=1, max_size=3))
    having = opt(untyped(depth)) if group_by is not None else None
    order_by = opt(st.lists(st.tuples(keys, st.sampled_from([None, 'ASC', 'DESC'])), min_size=1, max_size=3))
    pivot_by = opt(st.lists(st.integers(0, 9) | idents(), min_size=2, max_size=2))
    return bql.select(targets, opt(froms(depth)), opt(untyped(depth)), group_by, having, order_by, pivot_by,
                      opt(st.integers(0, 10**6)), draw(st.booleans()))


@st.composite
def statements(draw):
    kind = draw(st.sampled_from(['select', 'select', 'select', 'balances', 'journal', 'print']))
    depth = draw(st.integers(0, 3))
    if kind == 'select':
        return draw(selects(depth))
    opt = lambda s: draw(st.none() | s)  # noqa: E731
    if kind == 'balances':
        return {'kind': 'balances', 'at': opt(idents()), 'from': opt(froms(depth, ('expr',))), 'where': opt(untyped(depth))}
    if kind == 'journal':
        acct = opt(literals().filter(lambda x: x[1] == 'str'))
        return {'kind': 'journal', 'account': None if acct is None else acct[2], 'at': opt(idents()),
                'from': opt(froms(depth, ('expr',)))}
    return {'kind': 'print', 'from': opt(froms(depth, ('expr',)))}


@st.composite
def roundtrip_case(draw):
    s = draw(statements())
    texts = [bql.statement(s)]
    for _ in range(2):
        style = bql.Style(gen.Rnd(draw(st.randoms(use_true_random=False))), parens=draw(st.sampled_from([0.0, 0.2, 0.5])),
                          case=draw(st.booleans()), space=draw(st.booleans()), comments=draw(st.booleans()),
                          uplus=draw(st.booleans()), numforms=draw(st.booleans()))
        texts.append(bql.statement(s, style) + draw(st.sampled_from(['', '', ';', ' ;', '\n', ' ; trailing comment'])))
    return {'stmt': s, 'texts': texts, 'variant': draw(st.booleans())}


def swap_string_case(s):
    """The same statement with the letter case of every string constant swapped (a different statement)."""
    def ex(e):
        k = e[0]
        if k == 'const':
            return ['const', e[1], e[2].swapcase()] if e[1] == 'str' else e
        if k == 'list':
            return ['list', [ex(x) for x in e[1]]]
        if k == 'subq':
            return ['subq', st_(e[1])]
        if k in ('and', 'or'):
            return [k, [ex(a) for a in e[1]]]
        if k == 'fn':
            return ['fn', e[1], [ex(a) for a in e[2]]]
        if k == 'item':
            return ['item', ex(e[1]), e[2].swapcase()]
        if k in ('col', 'ph', 'star'):
            return e
        return [k] + [ex(x) if isinstance(x, list) else x for x in e[1:]]

    def frm(f):
        if f is None or f[0] == 'table':
            return f
        if f[0] == 'subq':
            return ('subq', st_(f[1]))
        return ('expr', None if f[1] is None else ex(f[1])) + tuple(f[2:])

    def st_(s):
        out = dict(s)
        if s['kind'] == 'select':
            if s['targets'] != '*':
                out['targets'] = [(ex(e), a) for e, a in s['targets']]
            for key in ('where', 'having'):
                if s.get(key) is not None:
                    out[key] = ex(s[key])
            if s.get('group_by') is not None:
                out['group_by'] = [k if isinstance(k, int) else ex(k) for k in s['group_by']]
            if s.get('order_by') is not None:
                out['order_by'] = [(k if isinstance(k, int) else ex(k), d) for k, d in s['order_by']]
        else:
            if s.get('where') is not None:
                out['where'] = ex(s['where'])
            if s.get('account') is not None:
                out['account'] = s['account'].swapcase()
        out['from'] = frm(s.get('from'))
        return out
    return st_(s)


# ---------------------------------------------------------------------------- oracles

def ast_equal(a, b):
    if isinstance(a, list) and isinstance(b, list):
        # the parser may deliver a list subclass (TatSu closure); the elements are what counts
        return len(a) == len(b) and all(ast_equal(x, y) for x, y in zip(a, b))
    if type(a) is not type(b):
        return False
    if isinstance(a, A.Node):
        return all(ast_equal(getattr(a, f.name), getattr(b, f.name)) for f in dataclasses.fields(a) if f.compare)
    if isinstance(a, list):
        return len(a) == len(b) and all(ast_equal(x, y) for x, y in zip(a, b))
    if isinstance(a, Decimal):
        return a.as_tuple() == b.as_tuple()
    return a == b


def shipped(text):
    """The generated parser class with the package's semantic actions (differential part)."""
    return beanquery.parser.parser.BQLParser().parse(text, semantics=beanquery.parser.BQLSemantics())


def public_parse(text):
    """The public entry point, beanquery.parser.parse (round-trip part)."""
    return beanquery.parser.parse(text)


_MODEL = []


def model_parser():
    if not _MODEL:
        import tatsu
        path = os.path.join(os.path.dirname(beanquery.parser.__file__), 'bql.ebnf')
        with open(path) as f:
            grammar = f.read()

        class Sem(beanquery.parser.BQLSemantics):
            def _default(self, value, typename=None):
                if typename is not None:
                    typename = typename.split('::')[0]
                return super()._default(value, typename)
        model = tatsu.compile(grammar)
        _MODEL.append(lambda text: model.parse(text, semantics=Sem()))
    return _MODEL[0]


def has_null_in_list(s):
    return any(isinstance(n, A.Constant) and isinstance(n.value, list) and None in n.value[1:]
               for n in bql.to_ast(s).walk())


def strip_list_nulls(node):
    node = dataclasses.replace(node) if isinstance(node, A.Node) else node
    if isinstance(node, A.Constant) and isinstance(node.value, list):
        return A.Constant([v for v in node.value if v is not None])
    if isinstance(node, A.Node):
        for f in dataclasses.fields(node):
            if f.compare:
                setattr(node, f.name, strip_list_nulls(getattr(node, f.name)))
        return node
    if isinstance(node, list):
        return [strip_list_nulls(x) for x in node]
    return node


def shape(s):
    """Classification of a statement for the non-triviality rule and the coverage histogram."""
    pairs = set()
    forms = set()

    def ex(e, parent=None, pos=None):
        k = e[0]
        if parent is not None and k not in ('col', 'const'):
            pairs.add((parent, k, pos))
        if k == 'const':
            forms.add('lit:' + e[1])
        elif k == 'list':
            forms.add('lit:list')
        elif k == 'subq':
            st_(e[1])
        else:
            for i, c in enumerate(bql.children(e)):
                ex(c, k, min(i, 2))

    def frm(f):
        if f is None:
            return
        forms.add('from:' + f[0])
        if f[0] == 'subq':
            st_(f[1])
        elif f[0] == 'expr':
            if f[1] is not None:
                ex(f[1])
            forms.add(f'from:open={f[2] is not None},close={"date" if isinstance(f[3], datetime.date) else f[3]},clear={bool(f[4])}')

    def st_(s):
        forms.add('stmt:' + s['kind'])
        if s['kind'] == 'select':
            if s['targets'] == '*':
                forms.add('targets:*')
            else:
                for e, a in s['targets']:
                    ex(e)
                    if a:
                        forms.add('alias')
            for key in ('where', 'having'):
                if s.get(key) is not None:
                    forms.add(key)
                    ex(s[key])
            for key in ('group_by', 'order_by'):
                if s.get(key) is not None:
                    forms.add(key)
                    for item in s[key]:
                        item = item[0] if key == 'order_by' else item
                        if not isinstance(item, int):
                            ex(item)
            for key in ('pivot_by', 'limit', 'distinct'):
                if s.get(key):
                    forms.add(key)
        else:
            if s.get('where') is not None:
                ex(s['where'])
        frm(s.get('from'))
    st_(s)
    return pairs, forms


def prop_roundtrip(sh, case):
    fails = []
    s = case['stmt']
    want = bql.to_ast(s)
    for i, text in enumerate(case['texts']):
        try:
            got = public_parse(text)
        except Exception as exc:  # noqa: BLE001
            name = type(exc).__name__
            sig = 'roundtrip:rejected' if 'Failed' in name or 'Parse' in name else exc_sig(exc, 'roundtrip')
            fails.append((sig, f'style {i}: {text!r}: {name}: {str(exc)[:200]}'))
            continue
        if not ast_equal(got, want):
            if has_null_in_list(s) and ast_equal(strip_list_nulls(got), strip_list_nulls(want)):
                fails.append(('roundtrip:list-null-dropped', f'{text!r} parsed {got!r}'))
                continue
            fails.append(('roundtrip:different-ast', f'style {i}: {text!r}\n parsed {got!r}\n wanted {want!r}'))
    if case.get('variant'):
        # a statement differing only in the letter case inside string constants is a different statement:
        # parsed right after the original (same process), it must give its own AST
        s2 = swap_string_case(s)
        want2 = bql.to_ast(s2)
        text2 = bql.statement(s2)
        if text2 != case['texts'][0]:
            try:
                got2 = public_parse(text2)
                if not ast_equal(got2, want2):
                    fails.append(('roundtrip:string-case-variant', f'{text2!r} (parsed after {case["texts"][0]!r})\n parsed {got2!r}\n wanted {want2!r}'))
            except Exception as exc:  # noqa: BLE001
                fails.append(('roundtrip:string-case-variant-rejected', f'{text2!r}: {exc!r}'))
            sh.count('string_case_variants')
    pairs, forms = shape(s)
    nested = {p for p in pairs if p[0] != p[1]}
    extra_forms = {f for f in forms if not f.startswith('stmt:') and f not in ('from:table', 'targets:*', 'lit:int')}
    nontrivial = bool(nested) or len(extra_forms) >= 2
    for p in pairs:
        sh.count('pair:%s>%s@%d' % p)
    for f in forms:
        sh.count('form:' + f)
    sh.record(jsonio.case_hash(case['stmt']), nontrivial,
              {'texts': case['texts'][:2]} if nontrivial and len(case['texts'][0]) < 300 else None, n=len(case['texts']))
    return fails


TOKENS = ['SELECT', 'FROM', 'WHERE', 'GROUP', 'BY', 'ORDER', 'HAVING', 'AND', 'OR', 'NOT', 'IN', 'IS', 'NULL', 'AS',
          'DISTINCT', 'LIMIT', 'PIVOT', 'BALANCES', 'JOURNAL', 'PRINT', 'OPEN', 'CLOSE', 'CLEAR', 'ON', 'AT', 'BETWEEN',
          'ASC', 'DESC', 'TRUE', 'FALSE', '(', ')', ',', '*', '+', '-', '/', '%', '=', '!=', '<', '<=', '>', '>=', '~', '!~',
          '.', '[', ']', ';', '%s', '%(a)s', '#t', '#', 'a', 'b', 'f', '1', '2.5', '.5', '1.', '2020-01-01', "'x'", '"y"',
          '/*', '*/', "'", '"']


@st.composite
def diff_case(draw):
    kind = draw(st.sampled_from(['valid', 'mutate', 'mutate', 'tokens']))
    if kind == 'tokens':
        toks = draw(st.lists(st.sampled_from(TOKENS), min_size=0, max_size=14))
        return {'text': ' '.join(toks), 'kind': kind}
    s = draw(statements())
    style = bql.Style(gen.Rnd(draw(st.randoms(use_true_random=False))), parens=0.2, case=draw(st.booleans()),
                      space=draw(st.booleans()), comments=draw(st.booleans()), uplus=True, numforms=True)
    text = bql.statement(s, style)
    if kind == 'valid':
        return {'text': text, 'kind': kind}
    words = text.split(' ')
    for _ in range(draw(st.integers(1, 2))):
        m = draw(st.sampled_from(['del', 'dup', 'swap', 'ins', 'chardel', 'charins']))
        if not words:
            break
        i = draw(st.integers(0, len(words) - 1))
        if m == 'del':
            del words[i]
        elif m == 'dup':
            words.insert(i, words[i])
        elif m == 'swap' and len(words) > 1:
            j = draw(st.integers(0, len(words) - 1))
            words[i], words[j] = words[j], words[i]
        elif m == 'ins':
            words.insert(i, draw(st.sampled_from(TOKENS)))
        elif m == 'chardel' and words[i]:
            c = draw(st.integers(0, len(words[i]) - 1))
            words[i] = words[i][:c] + words[i][c + 1:]
        elif m == 'charins':
            c = draw(st.integers(0, len(words[i])))
            words[i] = words[i][:c] + draw(st.sampled_from("()'\",.;*%-+ ~#0a")) + words[i][c:]
    return {'text': ' '.join(words), 'kind': 'mutate'}


def _parse(fn, text):
    try:
        return 'ok', fn(text)
    except Exception as exc:  # noqa: BLE001
        import tatsu
        if isinstance(exc, tatsu.exceptions.ParseException):
            return 'reject', getattr(exc, 'pos', None)
        return 'raise', exc


def prop_diff(sh, case):
    fails = []
    text = case['text']
    a = _parse(shipped, text)
    b = _parse(model_parser(), text)
    if any(r[0] == 'raise' and isinstance(r[1], (RecursionError, MemoryError)) for r in (a, b)):
        # the interpreted grammar parser needs several times the stack of the generated one for the same nesting:
        # hitting the interpreter's recursion limit is a resource bound, not a disagreement about the language
        sh.count('diff:inconclusive-recursion-limit')
        sh.record(None, False)
        return fails
    if a[0] == 'raise' or b[0] == 'raise':
        # non-parse exceptions (semantic actions on literals) must at least agree in kind
        if a[0] != b[0] or type(a[1]) is not type(b[1]):
            fails.append(('diff:exception-disagree', f'{text!r}: shipped {a!r} grammar {b!r}'))
    elif a[0] != b[0]:
        fails.append((f'diff:shipped-{a[0]}-grammar-{b[0]}', f'{text!r}'))
    elif a[0] == 'ok' and not ast_equal(a[1], b[1]):
        fails.append(('diff:different-ast', f'{text!r}\n shipped {a[1]!r}\n grammar {b[1]!r}'))
    elif a[0] == 'reject' and a[1] != b[1]:
        fails.append(('diff:different-error-position', f'{text!r}: shipped pos {a[1]} grammar pos {b[1]}'))
    sh.count(f'diff:{case["kind"]}:{a[0]}')
    # pure garbage is not credited: the text must get beyond its first keyword
    nontrivial = a[0] == 'ok' or (a[0] == 'reject' and (a[1] or 0) > 8)
    sh.record(jsonio.case_hash(text), nontrivial, {'text': text, 'outcome': a[0]} if nontrivial and len(text) < 200 else None)
    return fails


def prop_codegen(sh, case):
    """Supplement (not the deciding step): regenerating parser.py from bql.ebnf gives the shipped file."""
    import tatsu
    d = os.path.dirname(beanquery.parser.__file__)
    with open(os.path.join(d, 'bql.ebnf')) as f:
        grammar = f.read()
    with open(os.path.join(d, 'parser.py')) as f:
        shipped_src = f.read()
    try:
        src = tatsu.to_python_sourcecode(grammar, name='BQL')
    except Exception as exc:  # noqa: BLE001
        sh.extra['codegen_identical'] = f'grammar does not compile: {exc!r}'[:200]
        return [('codegen:grammar-does-not-compile', repr(exc))]
    sh.extra['codegen_identical'] = src == shipped_src
    sh.record('codegen', False)
    return []


def node_of(kind, operands):
    """An expression of the given kind over the given operand expressions (as many as it takes)."""
    a = operands
    if kind in ('neg', 'not', 'isnull', 'isnotnull'):
        return [kind, a[0]]
    if kind in BIN:
        return [kind, a[0], a[1]]
    if kind == 'between':
        return ['between', a[0], a[1], a[2]]
    if kind in ('and', 'or'):
        return [kind, [a[0], a[1]]]
    if kind == 'fn':
        return ['fn', 'f', [a[0], a[1]]]
    if kind == 'attr':
        return ['attr', a[0], 'x']
    if kind == 'item':
        return ['item', a[0], 'k']
    raise ValueError(kind)


ARITY = {'neg': 1, 'not': 1, 'isnull': 1, 'isnotnull': 1, 'between': 3, 'and': 2, 'or': 2, 'fn': 2, 'attr': 1, 'item': 1}
PARENTS = ['neg', 'not', 'isnull', 'isnotnull', 'between', 'and', 'or', 'fn', 'attr', 'item'] + BIN
LEAVES = [['col', 'a'], ['col', 'b'], ['col', 'c']]


def matrix_cases():
    """Every parent operator x child operator x operand position (the child over plain columns), and every
    parent x child x grandchild chain through the first operand position."""
    out = []
    atoms = {'const': ['const', 'int', 7], 'list': ['list', [['const', 'int', 1], ['const', 'str', 'x']]], 'ph': ['ph', None],
             'call': ['fn', 'g', []], 'star-call': ['fn', 'count', [['star']]], 'date': ['const', 'date', datetime.date(2020, 1, 2)],
             'decimal': ['const', 'decimal', Decimal('1.50')], 'null': ['const', 'null', None], 'true': ['const', 'bool', True],
             'list-null': ['list', [['const', 'int', 1], ['const', 'null', None], ['const', 'str', 'x'], ['const', 'null', None]]],
             'null-list': ['list', [['const', 'null', None], ['const', 'int', 1]]], 'one-null': ['list', [['const', 'null', None]]]}
    for parent in PARENTS:
        n = ARITY.get(parent, 2)
        for pos in range(n):
            children = [(k, node_of(k, LEAVES)) for k in PARENTS] + list(atoms.items())
            for cname, child in children:
                if parent in ('attr', 'item') and child[0] not in ('col', 'fn', 'ph', 'attr', 'item'):
                    continue        # the operand of . and [] is a primary
                operands = list(LEAVES)
                operands[pos] = child
                out.append((f'{parent}>{cname}@{pos}', node_of(parent, operands)))
    for p1 in PARENTS:
        for p2 in PARENTS:
            for p3 in ('neg', 'not', 'add', 'mul', 'eq', 'and', 'or', 'isnull', 'in'):
                inner = node_of(p3, LEAVES)
                if p2 in ('attr', 'item') or p1 in ('attr', 'item'):
                    continue
                mid = node_of(p2, [inner] + LEAVES[1:])
                out.append((f'{p1}>{p2}>{p3}', node_of(p1, [mid] + LEAVES[1:])))
    return out


def prop_matrix(sh, case):
    """case = {'slice': [i, n]}"""
    fails = []
    i0, n = case['slice']
    import random
    cases = matrix_cases()
    if sh.tier == 'quick':
        # all depth-2 combinations; one eighth of the depth-3 chains, rotating with the seed
        cases = [c for j, c in enumerate(cases) if c[0].count('>') == 1 or (j + sh.seed) % 8 == 0]
    for label, e in cases[i0::n]:
        for clause in ('target',):
            s = bql.select([(e, None)]) if clause == 'target' else bql.select([(['col', 'z'], None)], None, e)
            texts = [bql.statement(s), bql.statement(s, bql.Style(gen.Rnd(random.Random(hash(label) % 1000)), parens=0.3, case=True, space=True))]
            c = {'stmt': s, 'texts': texts}
            for sig, detail in prop_roundtrip(sh, c):
                fails.append((f'matrix:{sig}', f'{label}: {detail}'))
        sh.count('matrix_expressions')
    return fails


PARTS = {'roundtrip': prop_roundtrip, 'diff': prop_diff, 'codegen': prop_codegen, 'matrix': prop_matrix}


def run(sh):
    if sh.index == 0:
        for sig, detail in prop_codegen(sh, None):
            sh.fail(sig, detail, None, 'codegen')
    case = {'slice': [sh.index, sh.n]}
    for sig, detail in prop_matrix(sh, case):
        sh.fail(sig, detail, case, 'matrix')
    sh.extra['matrix_exhaustive_over'] = 'parent x child x position (depth 2) and parent x child x grandchild chains (first operand)'
    sh.search('roundtrip', roundtrip_case(), prop_roundtrip, quick=1600, thorough=60000)
    sh.search('diff', diff_case(), prop_diff, quick=1600, thorough=60000)
