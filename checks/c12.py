"""C12 - inventory aggregation is a homomorphism; the running balance is the prefix sum.

For generated ledgers (several currencies, dated lots at cost, reducing sales, prices quoted in USD
and EUR) and generated selections (WHERE / FROM predicates with a Python twin, groupings):
 direct  : sum(position | units(position) | cost(position) | weight | price) equals the Beancount
           Inventory built from the selected postings by a traversal that does not use beanquery;
 homo    : f(sum(position)) == sum(f(position)) for units, cost, value, convert (with/without date);
 parts   : group sums over partitions (account, currency, month, root) add up to the total;
 balance : `balance` of the k-th selected posting is the prefix sum of position, identical in every
           column that mentions it (bare, under units/cost, several times, around an IN-subquery
           that itself scans postings), the last balance equals sum(position); when the first
           WHERE conjunct consults balance it is the sum over all postings scanned so far."""
import datetime
import re
from decimal import Decimal as D

from hypothesis import strategies as st

from beancount.core import convert, data, inventory, position, prices

from vlib import bql, harness, jsonio, ledgergen, ledgers
from vlib.runner import exc_sig

ID = 'C12'
RULE = ('ledger as in C11 (<= 12 transactions, 4 currencies, lots with dates/labels, sales, conversions, price directives in '
        'USD and EUR) + selection (1..2 predicates over account regex / currency / date / number / month / flag / cost / '
        'tags, optional FROM filter) + grouping key. Non-trivial = >= 2 currencies among the selected postings, a lot '
        'reduction in the ledger, a selection that drops at least one posting and keeps at least two, and (balance part) '
        'balance referenced at least twice. Distinct by hash of (ledger text, selection).')
ASSUMPTIONS = ['conversions target USD, reachable through direct or cost-currency prices only, so that all rates are finite '
               'decimals and Decimal arithmetic is exact (no inverse 1/x rates)',
               'Beancount Inventory/convert functions are the reference for what an inventory sum / conversion is']

PREDICATES = st.one_of(
    st.tuples(st.just('account~'), st.sampled_from(['Bank', 'Broker', 'Assets', 'Expenses:Food', '^Income', 'Card|Loan', 'Sub$', 'checking'])),
    st.tuples(st.just('currency='), st.sampled_from(['USD', 'EUR', 'HOOL', 'BTC'])),
    st.tuples(st.just('date>='), st.dates(datetime.date(2019, 1, 1), datetime.date(2019, 6, 30))),
    st.tuples(st.just('date<'), st.dates(datetime.date(2019, 1, 5), datetime.date(2019, 9, 30))),
    st.tuples(st.just('number>'), st.sampled_from([D('0'), D('10'), D('100.50'), D('-5')])),
    st.tuples(st.just('number<'), st.sampled_from([D('0'), D('50')])),
    st.tuples(st.just('month='), st.integers(1, 4)),
    st.tuples(st.just('flag='), st.sampled_from(['*', '!'])),
    st.tuples(st.just('hascost'), st.just(None)),
    st.tuples(st.just('tag'), st.sampled_from(['trip', 'food', 'work'])),
)
FROM_PREDICATES = st.one_of(
    st.tuples(st.just('month='), st.integers(1, 4)),
    st.tuples(st.just('has_account'), st.sampled_from(['Food', 'Broker', 'Income', 'checking'])),
    st.tuples(st.just('tag'), st.sampled_from(['trip', 'food', 'work'])),
    st.tuples(st.just('flag='), st.sampled_from(['*', '!'])),
)
GROUPS = ['account', 'currency', 'month', 'root', 'cost_currency', 'flag']


def pred_ir(p):
    k, v = p
    col = lambda n: ['col', n]  # noqa: E731
    if k == 'account~':
        return ['match', col('account'), ['const', 'str', v]]
    if k == 'currency=':
        return ['eq', col('currency'), ['const', 'str', v]]
    if k == 'date>=':
        return ['ge', col('date'), ['const', 'date', v]]
    if k == 'date<':
        return ['lt', col('date'), ['const', 'date', v]]
    if k == 'number>':
        return ['gt', col('number'), bql.const(v)]
    if k == 'number<':
        return ['lt', col('number'), bql.const(v)]
    if k == 'month=':
        return ['eq', col('month'), ['const', 'int', v]]
    if k == 'flag=':
        return ['eq', col('flag'), ['const', 'str', v]]
    if k == 'hascost':
        return ['isnotnull', col('cost_number')]
    if k == 'tag':
        return ['in', ['const', 'str', v], col('tags')]
    if k == 'has_account':
        return ['fn', 'has_account', [['const', 'str', v]]]
    raise ValueError(k)


def pred_py(p, entry, posting):
    k, v = p
    if k == 'account~':
        return re.search(v, posting.account, re.IGNORECASE) is not None
    if k == 'currency=':
        return posting.units.currency == v
    if k == 'date>=':
        return entry.date >= v
    if k == 'date<':
        return entry.date < v
    if k == 'number>':
        return posting.units.number > v
    if k == 'number<':
        return posting.units.number < v
    if k == 'month=':
        return entry.date.month == v
    if k == 'flag=':
        return entry.flag == v
    if k == 'hascost':
        return posting.cost is not None
    if k == 'tag':
        return v in (entry.tags or ())
    if k == 'has_account':
        return any(re.search(v, p.account, re.IGNORECASE) for p in entry.postings)
    raise ValueError(k)


def combine_ir(preds, op):
    irs = [pred_ir(p) for p in preds]
    return irs[0] if len(irs) == 1 else [op, irs]


def combine_py(preds, op, entry, posting):
    vals = [pred_py(p, entry, posting) for p in preds]
    return all(vals) if op == 'and' else any(vals)


@st.composite
def selection(draw):
    return {'where': draw(st.lists(PREDICATES, min_size=0, max_size=2)), 'op': draw(st.sampled_from(['and', 'or'])),
            'from': draw(st.none() | FROM_PREDICATES), 'group': draw(st.sampled_from(GROUPS)),
            'date': draw(st.none() | st.dates(datetime.date(2019, 1, 1), datetime.date(2019, 12, 31)))}


@st.composite
def ledger_case(draw):
    desc = draw(ledgergen.ledgers(max_txns=12, with_pad=False, min_txns=2))
    # stock prices quoted in EUR as well (conversion through the cost currency)
    extra = draw(st.lists(st.tuples(st.sampled_from(['HOOL', 'BTC']), ledgergen.money(50, 60000),
                                    st.dates(datetime.date(2019, 1, 1), datetime.date(2019, 8, 1))), max_size=2))
    for cur, amt, d in extra:
        desc['directives'].append({'kind': 'price', 'date': d, 'currency': cur, 'amount': (amt, 'EUR'), 'meta': {}})
    desc['directives'].sort(key=lambda x: x['date'])
    sel = draw(selection())
    pdates = sorted({d['date'] for d in desc['directives'] if d['kind'] == 'price'})
    if pdates and sel['date'] is not None and draw(st.booleans()):
        # the valuation date is the date of a price directive (the rate of that very day applies)
        sel['date'] = draw(st.sampled_from(pdates))
    return {'text': ledgergen.render(desc), 'sel': sel}


def select_ir(targets, sel, group_by=None, extra_where=None):
    conds = []
    if sel['where']:
        conds.append(combine_ir(sel['where'], sel['op']))
    if extra_where is not None:
        conds.insert(0, extra_where)
    where = None if not conds else (conds[0] if len(conds) == 1 else ['and', conds])
    frm = None if sel['from'] is None else ('expr', pred_ir(sel['from']), None, None, None)
    return bql.select(targets, frm, where, group_by=group_by)


def selected(entries, sel):
    out = []
    for e in entries:
        if isinstance(e, data.Transaction):
            for p in e.postings:
                if sel['from'] is not None and not pred_py(sel['from'], e, p):
                    continue
                if sel['where'] and not combine_py(sel['where'], sel['op'], e, p):
                    continue
                out.append((e, p))
    return out


def inv_of(items, add='position'):
    inv = inventory.Inventory()
    for x in items:
        if x is None:
            continue
        if add == 'position':
            inv.add_position(x)
        else:
            inv.add_amount(x)
    return inv


def group_key(name, e, p):
    if name == 'account':
        return p.account
    if name == 'currency':
        return p.units.currency
    if name == 'month':
        return e.date.month
    if name == 'root':
        return p.account.split(':')[0]
    if name == 'cost_currency':
        return p.cost.currency if p.cost else None
    if name == 'flag':
        return e.flag
    raise ValueError(name)


def group_ir(name):
    if name == 'root':
        return ['fn', 'root', [['col', 'account'], ['const', 'int', 1]]]
    return ['col', name]


def query(conn, sel_ir):
    return harness.engine(conn, bql.to_ast(harness.force_aliases(sel_ir)))


def prop_ledger(sh, case):
    fails = []
    entries, errors, options = ledgers.load(case['text'])
    if errors:
        # a ledger the generator got wrong is discarded and counted, never reported
        sh.count('discarded_ledger_with_load_errors')
        sh.record(None, False)
        return []
    conn = ledgers.connect_entries(entries, options)
    sel = case['sel']
    rows = selected(entries, sel)
    price_map = prices.build_price_map(entries)
    P = ['col', 'position']
    fn = lambda name, *args: ['fn', name, list(args)]  # noqa: E731
    usd = ['const', 'str', 'USD']
    date = sel['date']
    dconst = None if date is None else ['const', 'date', date]
    pos_of = lambda p: position.Position(p.units, p.cost)  # noqa: E731

    # ---- direct sums and homomorphism --------------------------------------------------------------
    targets = [
        (fn('sum', P), 'sum_position'),
        (fn('sum', fn('units', P)), 'sum_units'),
        (fn('sum', fn('cost', P)), 'sum_cost'),
        (fn('sum', ['col', 'weight']), 'sum_weight'),
        (fn('sum', ['col', 'price']), 'sum_price'),
        (fn('units', fn('sum', P)), 'units_sum'),
        (fn('cost', fn('sum', P)), 'cost_sum'),
        (fn('sum', fn('value', P)), 'sum_value'),
        (fn('value', fn('sum', P)), 'value_sum'),
        (fn('sum', fn('convert', P, usd)), 'sum_convert'),
        (fn('convert', fn('sum', P), usd), 'convert_sum'),
        (fn('sum', fn('convert', fn('units', P), usd)), 'sum_convert_units'),
        (fn('count', ['star']), 'n'),
    ]
    if dconst is not None:
        targets += [(fn('sum', fn('convert', fn('units', P), usd, dconst)), 'sum_convert_units_d'),
                    (fn('convert', fn('sum', fn('units', P)), usd, dconst), 'convert_sum_units_d')]
        targets += [(fn('sum', fn('value', P, dconst)), 'sum_value_d'), (fn('value', fn('sum', P), dconst), 'value_sum_d'),
                    (fn('sum', fn('convert', P, usd, dconst)), 'sum_convert_d'),
                    (fn('convert', fn('sum', P), usd, dconst), 'convert_sum_d')]
    r = query(conn, select_ir(targets, sel))
    if r[0] != 'ok':
        return [(exc_sig(r[1], 'sums:raises'), f'{sel!r}: {r[1]!r}')]
    if not rows:
        if r[2]:
            fails.append(('sums:row-for-empty-selection', repr(r[2])))
    elif len(r[2]) != 1:
        fails.append(('sums:not-one-row', repr(r[2])))
    else:
        got = dict(zip([d.name for d in r[1]], r[2][0]))
        want = {
            'sum_position': inv_of(pos_of(p) for _, p in rows),
            'sum_units': inv_of((p.units for _, p in rows), 'amount'),
            'sum_cost': inv_of((convert.get_cost(pos_of(p)) for _, p in rows), 'amount'),
            'sum_weight': inv_of((convert.get_weight(p) for _, p in rows), 'amount'),
            'sum_price': inv_of((p.price for _, p in rows), 'amount'),
            'sum_value': inv_of((convert.get_value(pos_of(p), price_map) for _, p in rows), 'amount'),
            'sum_convert': inv_of((convert.convert_position(pos_of(p), 'USD', price_map) for _, p in rows), 'amount'),
            'sum_convert_units': inv_of((convert.convert_amount(p.units, 'USD', price_map) for _, p in rows), 'amount'),
            'n': len(rows),
        }
        if date is not None:
            want['sum_convert_units_d'] = inv_of((convert.convert_amount(p.units, 'USD', price_map, date) for _, p in rows), 'amount')
            want['sum_value_d'] = inv_of((convert.get_value(pos_of(p), price_map, date) for _, p in rows), 'amount')
            want['sum_convert_d'] = inv_of((convert.convert_position(pos_of(p), 'USD', price_map, date) for _, p in rows), 'amount')
        for k, w in want.items():
            if got[k] != w:
                fails.append((f'direct:{k}', f'{sel!r}: got {got[k]!r}, want {w!r}'))
        for a, b in (('units_sum', 'sum_units'), ('cost_sum', 'sum_cost'), ('value_sum', 'sum_value'),
                     ('convert_sum', 'sum_convert'), ('value_sum_d', 'sum_value_d'), ('convert_sum_d', 'sum_convert_d'),
                     ('convert_sum_units_d', 'sum_convert_units_d')):
            if a in got and got[a] != got[b]:
                fails.append((f'homomorphism:{a}', f'{sel!r}: {a}={got[a]!r} but {b}={got[b]!r}'))

    # ---- row level: functions of the position of each selected posting ---------------------------------
    rr = query(conn, select_ir([(P, 'p'), (fn('units', P), 'u'), (fn('cost', P), 'c'), (fn('value', P), 'v'),
                                (fn('convert', P, usd), 'cv'), (['isnull', fn('units', P)], 'un'), (fn('neg', P), 'ng'),
                                (fn('abs', P), 'ab'), (fn('str', P), 's'), (fn('possign', P, ['col', 'account']), 'ps')], sel))
    if rr[0] != 'ok':
        fails.append((exc_sig(rr[1], 'rowlevel:raises'), f'{sel!r}: {rr[1]!r}'))
    elif len(rr[2]) != len(rows):
        fails.append(('rowlevel:row-count', f'{len(rr[2])} vs {len(rows)}'))
    else:
        from beancount.core.account_types import get_account_sign
        from beancount.parser import options as boptions
        atypes = boptions.get_account_types(options)
        for (e, p), row in zip(rows, rr[2]):
            pos = pos_of(p)
            want = (pos, convert.get_units(pos), convert.get_cost(pos), convert.get_value(pos, price_map),
                    convert.convert_position(pos, 'USD', price_map), False, -pos, abs(pos), str(pos),
                    pos if get_account_sign(p.account, atypes) >= 0 else -pos)
            if any(x is None for x in row) or tuple(row) != want or repr(tuple(row)) != repr(want):
                fails.append(('rowlevel:position-functions', f'{sel!r}: posting {p.account} {pos}: got {row!r}, want {want!r}'))
                break

    # ---- partitions ----------------------------------------------------------------------------------
    g = sel['group']
    gtargets = [(group_ir(g), 'g'), (fn('sum', P), 's'), (fn('sum', ['col', 'weight']), 'w'), (fn('count', ['star']), 'n'),
                (fn('sum', fn('convert', P, usd)), 'c')]
    rg = query(conn, select_ir(gtargets, sel, group_by=[1]))
    if rg[0] != 'ok':
        fails.append((exc_sig(rg[1], 'parts:raises'), f'{sel!r}: {rg[1]!r}'))
    else:
        want_groups = {}
        for e, p in rows:
            want_groups.setdefault(group_key(g, e, p), []).append(p)
        got_groups = {row[0]: row for row in rg[2]}
        if list(got_groups) != list(want_groups) or len(rg[2]) != len(want_groups):
            fails.append(('parts:groups', f'{sel!r}: {list(got_groups)!r} want {list(want_groups)!r}'))
        else:
            total = inventory.Inventory()
            totalc = inventory.Inventory()
            for key, ps in want_groups.items():
                if got_groups[key][1] != inv_of(pos_of(p) for p in ps) or got_groups[key][3] != len(ps):
                    fails.append(('parts:group-sum', f'{sel!r} group {key!r}: {got_groups[key]!r}'))
                total.add_inventory(got_groups[key][1])
                totalc.add_inventory(got_groups[key][4])
            if rows and not fails and (total != got['sum_position'] or totalc != got['sum_convert']):
                fails.append(('parts:do-not-add-up', f'{sel!r}: groups {total!r} total {got["sum_position"]!r}'))

    # ---- sums of inventories (per-group inventories summed again by an outer query) -----------------------
    inner = select_ir([(group_ir(g), 'g'), (fn('sum', P), 'inv'), (fn('count', ['star']), 'n')], sel, group_by=[1])
    I = ['col', 'inv']
    outer = bql.select([(fn('sum', I), 'total'), (fn('first', I), 'fi'), (fn('cost', fn('sum', I)), 'cost_sum'),
                        (fn('sum', fn('cost', I)), 'sum_cost'), (fn('units', fn('sum', I)), 'units_sum'),
                        (fn('sum', fn('units', I)), 'sum_units'), (fn('last', I), 'la'), (fn('sum', ['col', 'n']), 'n')],
                       ('subq', inner))
    ro = query(conn, outer)
    if ro[0] != 'ok':
        fails.append((exc_sig(ro[1], 'inventories:raises'), f'{sel!r}: {ro[1]!r}'))
    elif rows:
        want_groups = {}
        for e, p in rows:
            want_groups.setdefault(group_key(g, e, p), []).append(p)
        invs = [inv_of(pos_of(p) for p in ps) for ps in want_groups.values()]
        total = inv_of(pos_of(p) for _, p in rows)
        got_o = dict(zip([d.name for d in ro[1]], ro[2][0])) if len(ro[2]) == 1 else None
        if got_o is None:
            fails.append(('inventories:not-one-row', repr(ro[2])))
        else:
            if got_o['total'] != total or got_o['n'] != len(rows):
                fails.append(('inventories:sum-of-group-inventories', f'{sel!r}: {got_o["total"]!r}, whole selection {total!r}'))
            if got_o['fi'] != invs[0] or got_o['la'] != invs[-1]:
                fails.append(('inventories:first-last-changed', f'{sel!r}: first {got_o["fi"]!r} want {invs[0]!r}; last {got_o["la"]!r} want {invs[-1]!r}'))
            if got_o['cost_sum'] != got_o['sum_cost'] or got_o['units_sum'] != got_o['sum_units'] \
                    or got_o['cost_sum'] != total.reduce(convert.get_cost) or got_o['units_sum'] != total.reduce(convert.get_units):
                fails.append(('inventories:homomorphism', f'{sel!r}: {got_o!r}'))

    # ---- sibling aggregates over sub-select columns of one datatype (units / cost / weight side by side) ----------
    inner2 = select_ir([(fn('units', P), 'u'), (fn('cost', P), 'c'), (['col', 'weight'], 'w'), (P, 'p')], sel)
    U, C, W = ['col', 'u'], ['col', 'c'], ['col', 'w']
    outer2 = bql.select([(fn('sum', U), 'su'), (fn('sum', C), 'sc'), (fn('sum', W), 'sw'), (fn('first', C), 'fc'), (fn('first', U), 'fu'),
                         (fn('last', W), 'lw'), (fn('last', U), 'lu'), (fn('sum', ['col', 'p']), 'sp'), (fn('count', C), 'nc')],
                        ('subq', inner2))
    rs = query(conn, outer2)
    if rs[0] != 'ok':
        fails.append((exc_sig(rs[1], 'siblings:raises'), f'{sel!r}: {rs[1]!r}'))
    elif rows:
        got_s = dict(zip([d.name for d in rs[1]], rs[2][0])) if len(rs[2]) == 1 else None
        if got_s is None:
            fails.append(('siblings:not-one-row', repr(rs[2])))
        else:
            ps = [pos_of(p) for _, p in rows]
            want_s = {'su': inv_of((convert.get_units(x) for x in ps), 'amount'), 'sc': inv_of((convert.get_cost(x) for x in ps), 'amount'),
                      'sw': inv_of((convert.get_weight(p) for _, p in rows), 'amount'), 'fc': convert.get_cost(ps[0]),
                      'fu': convert.get_units(ps[0]), 'lw': convert.get_weight(rows[-1][1]), 'lu': convert.get_units(ps[-1]),
                      'sp': inv_of(ps), 'nc': len(ps)}
            for k, w in want_s.items():
                if got_s[k] != w:
                    fails.append((f'siblings:{k}', f'{sel!r}: {k} = {got_s[k]!r}, want {w!r}'))
                    break
            sh.count('sibling_aggregates')

    # ---- running balance -----------------------------------------------------------------------------
    B = ['col', 'balance']
    inner = bql.select([(['col', 'account'], None)], ('table', 'postings'),
                       ['and', [['not', fn('empty', B)], ['gt', ['col', 'number'], bql.const(D('100'))]]])
    btargets = [(B, 'b1'), (P, 'p'), (fn('units', B), 'ub'), (B, 'b2'), (fn('cost', B), 'cb'),
                (['in', ['col', 'account'], ['subq', inner]], 'member'), (B, 'b3')]
    rb = query(conn, select_ir(btargets, sel))
    if rb[0] != 'ok':
        fails.append((exc_sig(rb[1], 'balance:raises'), f'{sel!r}: {rb[1]!r}'))
    elif len(rb[2]) != len(rows):
        fails.append(('balance:row-count', f'{len(rb[2])} vs {len(rows)}'))
    else:
        running = inventory.Inventory()
        for i, ((e, p), row) in enumerate(zip(rows, rb[2])):
            running.add_position(p)
            b1, _, ub, b2, cb, _, b3 = row
            if b1 != running:
                fails.append(('balance:prefix-sum', f'{sel!r} row {i}: balance {b1!r}, prefix sum {running!r}'))
                break
            if b2 != b1 or ub != b1.reduce(convert.get_units) or cb != b1.reduce(convert.get_cost):
                fails.append(('balance:differs-between-columns', f'{sel!r} row {i}: {row!r}'))
                break
            if b3 != b1:
                fails.append(('balance:differs-after-subquery', f'{sel!r} row {i}: {b1!r} then {b3!r}'))
                break
        if rows and not fails and rb[2][-1][0] != got['sum_position']:
            fails.append(('balance:last-is-not-sum', f'{sel!r}'))
    # the only reference to balance sits behind an argument that is NULL on some rows (cost_currency of a cost-less
    # posting): the row still counts towards the balance of the rows after it
    ro = query(conn, select_ir([(fn('only', ['col', 'cost_currency'], B), 'o'), (['col', 'cost_currency'], 'cc')], sel))
    if ro[0] != 'ok':
        fails.append((exc_sig(ro[1], 'balance-only:raises'), f'{sel!r}: {ro[1]!r}'))
    elif len(ro[2]) == len(rows):
        running = inventory.Inventory()
        for i, ((e, p), row) in enumerate(zip(rows, ro[2])):
            running.add_position(p)
            want_o = None if p.cost is None else running.get_currency_units(p.cost.currency)
            if row[0] != want_o:
                fails.append(('balance:single-reference-behind-null-argument', f'{sel!r} row {i}: only(cost_currency, balance) = {row[0]!r}, '
                              f'prefix sum holds {want_o!r}'))
                break
    # WHERE consulting balance first: the balance counts every scanned posting
    rw = query(conn, select_ir([(B, 'b'), (['col', 'account'], None)], sel, extra_where=['not', fn('empty', fn('units', B))]))
    if rw[0] != 'ok':
        fails.append((exc_sig(rw[1], 'balance-where:raises'), f'{sel!r}: {rw[1]!r}'))
    else:
        want = []
        running = inventory.Inventory()
        for e in entries:
            if isinstance(e, data.Transaction):
                for p in e.postings:
                    if sel['from'] is not None and not pred_py(sel['from'], e, p):
                        continue        # the FROM filter is evaluated before WHERE: the row is not scanned by WHERE
                    running.add_position(p)
                    if running.reduce(convert.get_units).is_empty():
                        continue
                    if sel['where'] and not combine_py(sel['where'], sel['op'], e, p):
                        continue
                    want.append(inventory.Inventory(running.get_positions()))
        if [r_[0] for r_ in rw[2]] != want:
            fails.append(('balance-where:scanned-sum', f'{sel!r}: got {[r_[0] for r_ in rw[2]][:3]!r} want {want[:3]!r}'))

    allp = [(e, p) for e in entries if isinstance(e, data.Transaction) for p in e.postings]
    currencies = {p.units.currency for _, p in rows}
    reduction = any(p.cost is not None and p.units.number < 0 for _, p in allp)
    nontrivial = len(currencies) >= 2 and reduction and 2 <= len(rows) < len(allp)
    sh.count(f'selected:{min(len(rows), 5)}')
    if reduction:
        sh.count('ledger_with_lot_reduction')
    sh.record(jsonio.case_hash(case), nontrivial,
              {'selection': jsonio.short(sel), 'postings': len(allp), 'selected': len(rows)} if nontrivial else None, n=4)
    return fails


PARTS = {'ledger': prop_ledger}


def run(sh):
    sh.search('ledger', ledger_case(), prop_ledger, quick=3000, thorough=100000)
