"""C04 - type soundness: announced datatypes are truthful; accepted queries run type-safe.

registry : every overload in beanquery's OPERATORS and FUNCTIONS registries (read at run time, so a
           new or re-declared overload is covered automatically), with every parameter also bound to
           columns of its subtypes and to untyped columns, evaluated over per-type value pools with
           NULLs in every position: each value must be NULL or conform to the announced datatype,
           the result must render (text, csv) and numberify, and no TypeError / AttributeError may
           escape on conforming data.  COALESCE over all ordered type pairs.
ledger   : every column of every Beancount-backed table and every attribute chain of the structured
           types (to depth 3) over generated ledgers, also under OPEN / CLOSE / CLEAR."""
import collections.abc
import datetime
import io
import itertools
from decimal import Decimal as D

from dateutil.relativedelta import relativedelta
from hypothesis import strategies as st

import beanquery
from beancount.core import amount, inventory, position
from beanquery import numberify, query_compile, query_render, types
from beanquery.parser import ast as A

from vlib import htables, jsonio, ledgergen, ledgers
from vlib.runner import exc_sig

ID = 'C04'
RULE = ('registry: one case per (overload, binding of each parameter to a column type among the declared type, its subtypes, '
        'object); rows = sample of the cross product of per-type pools (<= 40 rows) incl. NULL per position; non-trivial = the '
        'overload produced >= 1 non-NULL value (so its datatype was observed); distinct by (overload, bound types). ledger: '
        'every (table, column) and attribute chain on generated ledgers; non-trivial = >= 1 non-NULL value.')
ASSUMPTIONS = ['domain errors of partial functions on conforming data (ValueError, IndexError, KeyError, re.error, decimal signals, '
               'OverflowError, ZeroDivisionError) are out of scope and only counted',
               'collections conform by kind (set/frozenset/list/tuple; any mapping for dict); object admits anything; a '
               'Structure datatype admits any value on which all its declared attribute getters succeed']

AMT = amount.Amount
POS = position.Position
COST = position.Cost


def inv(*ps):
    i = inventory.Inventory()
    for p in ps:
        i.add_position(p)
    return i


POOLS = {
    int: [0, 1, -3, 7],
    D: [D('0'), D('1.5'), D('-2.00')],
    str: ['', 'a', 'Assets:Bank:Checking', 'USD', '2020-01-05', '2 days', 'month', '^A', '(a)(b)?', 'Income:Job', 'HOOL'],
    datetime.date: [datetime.date(2019, 1, 5), datetime.date(2020, 2, 29)],
    bool: [True, False],
    set: [set(), {'a', 'b'}, {'Assets:Bank:Checking'}],
    list: [[], ['a'], [1, 2]],
    dict: [{}, {'k': 1, 'a': 'x'}],
    AMT: [AMT(D('1.50'), 'USD'), AMT(D('-3'), 'HOOL'), AMT(D('0'), 'EUR')],
    POS: [POS(AMT(D('2'), 'HOOL'), COST(D('100.00'), 'USD', datetime.date(2019, 1, 15), None)), POS(AMT(D('5.25'), 'USD'), None)],
    inventory.Inventory: [inv(), inv(POS(AMT(D('2'), 'HOOL'), COST(D('100.00'), 'USD', datetime.date(2019, 1, 15), None)),
                                     POS(AMT(D('5.25'), 'USD'), None)), inv(POS(AMT(D('-1'), 'EUR'), None))],
    relativedelta: [relativedelta(days=3), relativedelta(months=1), relativedelta(years=-1)],
}
POOLS[object] = [1, D('2.5'), 'x', '3', datetime.date(2020, 1, 1), True, AMT(D('1'), 'USD'), {'k': 1}]
SUBTYPES = {int: [bool], dict: [], set: [], object: []}
DOMAIN_ERRORS = (ValueError, IndexError, KeyError, ArithmeticError, OverflowError, LookupError)


def conforms(value, dtype):
    if value is None or dtype is object:
        return True
    if dtype in (set, frozenset, list, tuple):
        return isinstance(value, (set, frozenset, list, tuple))
    if isinstance(dtype, type) and issubclass(dtype, dict) and dtype is not inventory.Inventory:
        return isinstance(value, collections.abc.Mapping)
    if isinstance(dtype, type) and issubclass(dtype, types.Structure):
        try:
            for getter in dtype.columns.values():
                getter(value)
            return True
        except Exception:  # noqa: BLE001
            return False
    # a datatype that is not a class (a typing construct such as frozenset[str]) cannot be dispatched on
    # by the renderers nor tested by the compiler: announcing it is a violation
    return isinstance(dtype, type) and isinstance(value, dtype)


def check_result(label, desc, rows, dcontext, fails):
    """Values conform to the description; the result renders and numberifies."""
    observed = False
    for j, col in enumerate(desc):
        if not isinstance(col.datatype, type):
            fails.append(('datatype-not-a-class', f'{label}: column {col.name!r} announces {col.datatype!r}'))
            return observed
        for row in rows:
            v = row[j]
            if v is not None:
                observed = True
            if not conforms(v, col.datatype):
                fails.append(('datatype-not-truthful', f'{label}: column {col.name!r} announced {types.name(col.datatype)}, '
                              f'holds {v!r} ({type(v).__name__})'))
                return observed
    for name, render in (('text', query_render.render_text), ('csv', query_render.render_csv)):
        try:
            render(desc, rows, dcontext, io.StringIO())
            render(desc, rows, dcontext, io.StringIO(), expand=True, boxed=True)
        except Exception as exc:  # noqa: BLE001
            fails.append((f'render-{name}-raises:{type(exc).__name__}', f'{label}: {exc!r}'))
    try:
        numberify.numberify_results(desc, rows, dcontext.build())
    except Exception as exc:  # noqa: BLE001
        fails.append((f'numberify-raises:{type(exc).__name__}', f'{label}: {exc!r}'))
    return observed


def execute(conn, statement):
    try:
        cur = conn.execute(statement)
        return 'ok', cur.description, cur.fetchall()
    except beanquery.ProgrammingError as exc:
        return 'rejected', exc, None
    except (TypeError, AttributeError) as exc:
        return 'raised', exc, None
    except Exception as exc:  # noqa: BLE001 - domain errors of partial functions: counted, not asserted
        return 'domain', exc, None


def base_connection():
    conn = ledgers.connect(ledgers.SAMPLE)
    return conn, conn.options['dcontext']


def type_key(t):
    return getattr(t, '__name__', repr(t))


def overloads():
    """[(kind, name-or-node-class, overload class)] for everything registered."""
    out = []
    for node, ops in query_compile.OPERATORS.items():
        for op in ops:
            out.append(('operator', node, op))
    for name, fns in query_compile.FUNCTIONS.items():
        for fn in fns:
            out.append(('function', name, fn))
    return out


def bindings(intypes):
    """Column types to bind each parameter to: the declared type, its subtypes, and (typed params) object."""
    choices = []
    for t in intypes:
        if t is types.Asterisk:
            choices.append(['*'])
        elif isinstance(t, types.AnyType):
            choices.append([int, str, D, datetime.date, bool, set, AMT, inventory.Inventory, object])
        else:
            cands = [t] + SUBTYPES.get(t, [])
            if t not in POOLS:
                cands = [t]
            choices.append(cands)
    combos = list(itertools.product(*choices))
    return combos[:24]


def build_statement(kind, key, nparams, star):
    cols = [A.Column(f'c{i}') for i in range(nparams)]
    if kind == 'function':
        e = A.Function(key, [A.Asterisk()] if star else cols)
    elif key is A.Between:
        e = A.Between(*cols)
    elif len(cols) == 1:
        e = key(cols[0])
    else:
        e = key(cols[0], cols[1])
    return A.Select([A.Target(e, 'r')], A.Table('v'), None, None, None, None, None, None)


def rows_for(coltypes):
    pools = []
    for t in coltypes:
        pools.append(POOLS.get(t, [None]) + [None])
    rows = list(itertools.product(*pools)) if pools else [()]
    if len(rows) > 40:
        step = len(rows) / 40.0
        rows = [rows[int(i * step)] for i in range(40)] + [rows[-1]]
    return rows


def prop_registry(sh, case):
    """case = {'slice': [i, n]}: the overloads owned by this shard."""
    fails = []
    conn, dcontext = base_connection()
    allo = overloads()
    if case.get('only'):
        mine = [o for o in allo if (o[1] if isinstance(o[1], str) else o[1].__name__) in case['only']]
    else:
        i0, n = case['slice']
        mine = allo[i0::n]
    unobserved = []
    for kind, key, ov in mine:
        intypes = list(getattr(ov, '__intypes__', []))
        name = key if isinstance(key, str) else key.__name__
        for combo in bindings(intypes):
            star = '*' in combo
            coltypes = [t for t in combo if t != '*']
            label = f"{kind} {name}({', '.join(type_key(t) for t in combo)})"
            rows = rows_for(coltypes)
            stmt = build_statement(kind, key, len(coltypes), star)
            conn.tables['v'] = htables.HTable('v', [(f'c{i}', t) for i, t in enumerate(coltypes)], rows)
            r = execute(conn, stmt)
            observed = False
            if r[0] == 'rejected':
                sh.count('rejected_by_type_checker')
                sh.record(label, False)
                continue
            if r[0] in ('domain', 'raised'):
                # one bad row aborts the query: evaluate row by row
                for row in rows:
                    conn.tables['v'] = htables.HTable('v', [(f'c{i}', t) for i, t in enumerate(coltypes)], [row])
                    r1 = execute(conn, stmt)
                    if r1[0] == 'ok':
                        observed |= check_result(f'{label} on {row!r}', r1[1], r1[2], dcontext, fails)
                    elif r1[0] == 'domain':
                        sh.count('domain_errors')
                    elif r1[0] == 'raised' and "'tuple' object has no attribute" in str(r1[1]):
                        sh.count('needs_beancount_row')      # function of the posting row: not applicable to a harness table
                        break
                    elif r1[0] == 'raised':
                        fails.append((f'accepted-query-raises:{type(r1[1]).__name__}:{kind} {name}', f'{label} on {row!r}: {r1[1]!r}'))
                        break
            else:
                observed = check_result(label, r[1], r[2], dcontext, fails)
            if kind == 'function' and isinstance(ov, type) and issubclass(ov, query_compile.EvalAggregator) and coltypes:
                # an aggregate over a group holding only NULLs, and over no row at all
                for special in ([tuple(None for _ in coltypes)] * 2, []):
                    conn.tables['v'] = htables.HTable('v', [(f'c{i}', t) for i, t in enumerate(coltypes)], special)
                    r2 = execute(conn, stmt)
                    if r2[0] == 'ok':
                        check_result(f'{label} over {len(special)} all-NULL rows', r2[1], r2[2], dcontext, fails)
                    elif r2[0] == 'raised':
                        fails.append((f'accepted-query-raises:{type(r2[1]).__name__}:{kind} {name}', f'{label} over NULLs: {r2[1]!r}'))
            if not observed:
                unobserved.append(label)
            sh.record(label, observed, {'overload': label, 'announced': types.name(r[1][0].datatype) if r[0] == 'ok' else None}
                      if observed and len(sh.samples) < 6 else None, n=len(rows))
    sh.extra.setdefault('overloads_never_producing_a_value', [])
    sh.extra['overloads_never_producing_a_value'] += unobserved[:50]
    if sh.index == 0:
        sh.extra['registry_overloads'] = len(allo)
    return fails


def prop_coalesce(sh, case):
    fails = []
    conn, dcontext = base_connection()
    kinds = [int, D, str, datetime.date, bool, set, dict, AMT, POS, inventory.Inventory, object]
    for a, b in itertools.product(kinds, repeat=2):
        rows = [(None, v) for v in POOLS[b]] + [(v, None) for v in POOLS[a]] + [(POOLS[a][0], POOLS[b][0]), (None, None)]
        conn.tables['v'] = htables.HTable('v', [('c0', a), ('c1', b)], rows)
        label = f'coalesce({type_key(a)}, {type_key(b)})'
        for args in ([A.Column('c0'), A.Column('c1')], [A.Column('c0'), A.Column('c1'), A.Column('c0')]):
            stmt = A.Select([A.Target(A.Function('coalesce', args), 'r')], A.Table('v'), None, None, None, None, None, None)
            r = execute(conn, stmt)
            if r[0] == 'ok':
                check_result(label, r[1], r[2], dcontext, fails)
            elif r[0] == 'raised':
                fails.append((f'accepted-query-raises:{type(r[1]).__name__}', f'{label}: {r[1]!r}'))
            sh.record(label + str(len(args)), r[0] == 'ok', None, n=len(rows))
    return fails


def prop_connectives(sh, case):
    """AND / OR / NOT / IS [NOT] NULL accept operands of any datatype and announce bool: the value must be a bool (or
    NULL) whatever the operands hold, in particular falsy non-boolean values (0, 0.00, '', empty set, empty inventory)."""
    fails = []
    conn, dcontext = base_connection()
    kinds = [int, D, str, datetime.date, bool, set, list, dict, AMT, POS, inventory.Inventory, object]
    c0, c1 = A.Column('c0'), A.Column('c1')
    true, false = A.Constant(True), A.Constant(False)
    for a, b in itertools.product(kinds, repeat=2):
        pa, pb = POOLS[a] + [None], POOLS[b] + [None]
        rows = [(x, y) for x in pa for y in (pb[0], pb[-2], None)] + [(x, y) for y in pb for x in (pa[0], pa[-2], None)]
        conn.tables['v'] = htables.HTable('v', [('c0', a), ('c1', b)], rows)
        exprs = {'c0 AND c1': A.And([c0, c1]), 'c0 OR c1': A.Or([c0, c1]), 'c1 AND c0 AND TRUE': A.And([c1, c0, true]),
                 'c0 OR c1 OR FALSE': A.Or([c0, c1, false]), 'NOT (c0 AND c1)': A.Not(A.And([c0, c1]))}
        if a is b:
            exprs.update({'NOT c0': A.Not(c0), 'c0 AND TRUE': A.And([c0, true]), 'TRUE AND c0': A.And([true, c0]),
                          'c0 OR FALSE': A.Or([c0, false]), 'FALSE OR c0': A.Or([false, c0]), 'c0 IS NULL': A.IsNull(c0),
                          'c0 IS NOT NULL': A.IsNotNull(c0), 'str(c0 AND TRUE)': A.Function('str', [A.And([c0, true])])})
        for text, e in exprs.items():
            label = f'{text} over ({type_key(a)}, {type_key(b)})'
            for stmt in (A.Select([A.Target(e, 'r')], A.Table('v'), None, None, None, None, None, None),
                         A.Select([A.Target(A.Function('first', [e]), 'r'), A.Target(A.Function('max', [e]), 'm')], A.Table('v'),
                                  None, None, None, None, None, None)):
                r = execute(conn, stmt)
                if r[0] == 'ok':
                    check_result(label, r[1], r[2], dcontext, fails)
                    if text.startswith('str(') and len(r[2]) == len(rows):
                        bad = [v[0] for v in r[2] if v[0] not in (None, 'TRUE', 'FALSE', 'True', 'False')]
                        if bad:
                            fails.append(('datatype-not-truthful', f'{label}: str() of a bool gives {bad[:3]!r}'))
                elif r[0] == 'raised':
                    fails.append((f'accepted-query-raises:{type(r[1]).__name__}:connective', f'{label}: {r[1]!r}'))
                else:
                    sh.count('connectives:' + r[0])
            sh.record(label, True, {'expression': label} if len(sh.samples) < 8 else None, n=len(rows))
    return fails


def prop_subquery(sh, case):
    """Columns of a FROM-subquery carry the datatype of the inner target they come from - also when an earlier statement of the
    process exposed a column of the same name and position with another datatype."""
    fails = []
    conn, dcontext = base_connection()
    kinds = [int, D, str, datetime.date, bool, set, dict, AMT, POS, inventory.Inventory]
    col = A.Column
    for a, b in itertools.permutations(kinds, 2):
        rows = [(x, y) for x in POOLS[a][:2] + [None] for y in POOLS[b][:2] + [None]]
        conn.tables['v'] = htables.HTable('v', [('c0', a), ('c1', b)], rows)
        for inner_col in ('c0', 'c1', 'c0'):
            inner = A.Select([A.Target(col(inner_col), 'x'), A.Target(A.Function('count', [A.Asterisk()]), 'n')], A.Table('v'), None,
                             A.GroupBy([1], None) if a not in (set, dict, inventory.Inventory) and b not in (set, dict, inventory.Inventory) else None,
                             None, None, None, None)
            if inner.group_by is None:
                inner = A.Select([A.Target(col(inner_col), 'x')], A.Table('v'), None, None, None, None, None, None)
            for outer in (A.Select([A.Target(col('x'), None)], inner, None, None, None, None, None, None),
                          A.Select(A.Asterisk(), inner, None, None, None, None, None, None),
                          A.Select([A.Target(A.Function('first', [col('x')]), 'f'), A.Target(A.Function('last', [col('x')]), 'l')], inner,
                                   None, None, None, None, None, None)):
                label = f'FROM (SELECT {inner_col} AS x ...) over ({type_key(a)}, {type_key(b)})'
                r = execute(conn, outer)
                if r[0] == 'ok':
                    check_result(label, r[1], r[2], dcontext, fails)
                elif r[0] == 'raised':
                    fails.append((f'accepted-query-raises:{type(r[1]).__name__}:subquery', f'{label}: {r[1]!r}'))
        sh.record(f'subquery {type_key(a)} {type_key(b)}', True, None, n=9)
    return fails


def prop_pivot(sh, case):
    """Whatever PIVOT BY the compiler accepts must execute type-safely and announce truthful datatypes."""
    fails = []
    conn, dcontext = base_connection()
    rows = [('a', 1, D('1.5'), POOLS[inventory.Inventory][1], {'k': 1}), ('b', 2, None, POOLS[inventory.Inventory][2], {}),
            ('a', 2, D('2'), None, None), ('b', 1, D('0'), POOLS[inventory.Inventory][0], {'x': 'y'}),
            (None, 1, D('3'), None, None), ('a', None, None, None, None), (None, None, D('4'), None, {})]
    conn.tables['v'] = htables.HTable('v', [('k1', str), ('k2', int), ('x', D), ('inv', inventory.Inventory), ('d', dict)], rows)
    col = A.Column
    targets = [A.Target(col('k1'), None), A.Target(col('k2'), None), A.Target(A.Function('sum', [col('x')]), 's'),
               A.Target(A.Function('first', [col('inv')]), 'fi'), A.Target(A.Function('last', [col('d')]), 'ld'),
               A.Target(A.Function('count', [A.Asterisk()]), 'n')]
    names = ['k1', 'k2', 's', 'fi', 'ld', 'n']
    for i, j in itertools.permutations(range(len(targets)), 2):
        for refs in ([i + 1, j + 1], [col(names[i]), col(names[j])]):
            stmt = A.Select(targets, A.Table('v'), None, A.GroupBy([1, 2], None), None, A.PivotBy(refs), None, None)
            r = execute(conn, stmt)
            label = f'PIVOT BY {names[i]}, {names[j]}'
            if r[0] == 'ok':
                check_result(label, r[1], r[2], dcontext, fails)
            elif r[0] == 'raised':
                what = 'unorderable-first-column' if names[i] in ('fi', 'ld') else 'scalar-keys'
                fails.append((f'accepted-pivot-raises:{type(r[1]).__name__}:{what}', f'{label}: {r[1]!r}'))
            sh.record(label + str(type(refs[0])), r[0] == 'ok', None)
    # grouped queries whose GROUP BY names a key more than once, in any form and order: the key columns keep their datatypes
    plain = [A.Target(col('k1'), None), A.Target(col('k2'), None), A.Target(col('x'), None), A.Target(A.Function('count', [A.Asterisk()]), 'n'),
             A.Target(A.Function('last', [col('d')]), 'ld')]
    for gb in ([col('k1'), 1, col('k2'), col('x')], [1, 1, 2, 3], [3, 2, 1, 2, 3], [col('x'), col('k2'), col('k1'), col('k2')],
               [2, col('k2'), 1, 3, 3], [1, 2, 3]):
        for tl in (plain, plain[::-1], [plain[2], plain[3], plain[0], plain[1]]):
            refs = [g if not isinstance(g, int) else tl.index(plain[g - 1]) + 1 for g in gb]
            stmt = A.Select(tl, A.Table('v'), None, A.GroupBy(refs, None), None, None, None, None)
            r = execute(conn, stmt)
            label = f'GROUP BY {[g if isinstance(g, int) else g.name for g in refs]} over {[t.name or t.expression.name for t in tl]}'
            if r[0] == 'ok':
                check_result(label, r[1], r[2], dcontext, fails)
            elif r[0] == 'raised':
                fails.append((f'accepted-query-raises:{type(r[1]).__name__}:group-by', f'{label}: {r[1]!r}'))
            sh.record(label, r[0] == 'ok', None)
    return fails


# ------------------------------------------------------------------ ledger tables and structured types

def attribute_chains(dtype, depth=3):
    """[(names...)] attribute paths available on a structured datatype."""
    dtype = types.ALIASES.get(dtype, dtype)
    out = []
    if not (isinstance(dtype, type) and issubclass(dtype, types.Structure)) or depth == 0:
        return out
    for name, col in dtype.columns.items():
        out.append((name,))
        for rest in attribute_chains(col.dtype, depth - 1):
            out.append((name,) + rest)
    return out


@st.composite
def ledger_case(draw):
    desc = draw(ledgergen.ledgers(max_txns=8))
    dates = sorted({d['date'] for d in desc['directives'] if d['kind'] == 'txn'})
    qual = draw(st.sampled_from([None, None, 'open', 'clear', 'open+close+clear']))
    return {'text': ledgergen.render(desc), 'qual': qual, 'date': draw(st.sampled_from(dates))}


def prop_ledger(sh, case):
    fails = []
    entries, errors, options = ledgers.load(case['text'])
    conn = ledgers.connect_entries(entries, options)
    dcontext = options['dcontext']
    qual = case['qual']
    for tname, table in sorted(conn.tables.items()):
        if not tname:
            continue
        frm = A.Table(tname)
        if qual and tname == 'postings':
            d = case['date']
            frm = A.From(None, d if 'open' in qual else None, (d + datetime.timedelta(days=40)) if 'close' in qual else None,
                         True if 'clear' in qual else None)
        targets = []
        for cname, col in table.columns.items():
            targets.append((A.Column(cname), cname))
            for chain in attribute_chains(col.dtype):
                e = A.Column(cname)
                for a in chain:
                    e = A.Attribute(e, a)
                targets.append((e, cname + '.' + '.'.join(chain)))
        for e, label in targets:
            stmt = A.Select([A.Target(e, 'r')], frm, None, None, None, None, None, None)
            r = execute(conn, stmt)
            full = f'{tname}.{label}' + (f' [{qual}]' if qual and tname == 'postings' else '')
            if r[0] == 'ok':
                observed = check_result(full, r[1], r[2], dcontext, fails)
                sh.record(full, observed, {'column': full, 'announced': types.name(r[1][0].datatype)} if observed and len(sh.samples) < 6 else None,
                          n=len(r[2]))
            elif r[0] == 'raised':
                fails.append((f'accepted-query-raises:{type(r[1]).__name__}', f'SELECT {label} FROM {tname} [{qual}]: {r[1]!r}'))
            elif r[0] == 'rejected':
                fails.append(('declared-column-rejected', f'{full}: {r[1]!r}'))
    # the rendering of whole tables (several columns at once) must not raise either
    for q in ('SELECT * FROM #postings', 'SELECT * FROM #entries', 'SELECT * FROM #transactions', 'SELECT * FROM #prices',
              'SELECT account, open, close FROM #accounts', 'SELECT account, sum(position), first(entry), last(meta), count(tags) GROUP BY 1'):
        from vlib import harness
        r = execute(conn, harness.parsed(q))
        if r[0] == 'ok':
            check_result(q, r[1], r[2], dcontext, fails)
        elif r[0] == 'raised':
            fails.append((f'accepted-query-raises:{type(r[1]).__name__}', f'{q}: {r[1]!r}'))
    return fails


def prop_untyped(sh, case):
    """Binary operators with one untyped (object) operand: the compiler casts it to the other operand's type; whatever overload
    it then picks, the values must conform to the announced datatype - for the untyped operand on the left and on the right,
    against columns and constants of every scalar type, also under sum() and through a FROM-subquery."""
    fails = []
    conn, dcontext = base_connection()
    castable = {int: [3, '4', D('5'), True, None], D: [3, D('2.5'), '1.25', None], str: ['x', 'abc', 3, None],
                datetime.date: [datetime.date(2020, 1, 2), '2021-03-04', None], bool: [True, False, 1, 0, '', 'x', None]}
    consts = {int: A.Constant(2), D: A.Constant(D('1.5')), str: A.Constant('ab'), datetime.date: A.Constant(datetime.date(2020, 1, 2)),
              bool: A.Constant(True)}
    binary = [node for node, ops in query_compile.OPERATORS.items()
              if any(len(getattr(ov, '__intypes__', ())) == 2 for ov in ops) and node is not A.Between]
    o, t = A.Column('o'), A.Column('t')
    n = 0
    for node in binary:
        for typ, pool in castable.items():
            rows = [(x, y) for x in pool for y in (POOLS[typ][:3] + [None])]
            conn.tables['v'] = htables.HTable('v', [('o', object), ('t', typ)], rows)
            for side, other in itertools.product(('left', 'right'), (t, consts[typ])):
                e = node(o, other) if side == 'left' else node(other, o)
                label = f'{node.__name__} untyped {side}, {type_key(typ)} {"column" if other is t else "constant"}'
                plain = A.Select([A.Target(e, 'r')], A.Table('v'), None, None, None, None, None, None)
                stmts = [plain,
                         A.Select([A.Target(A.Function('first', [e]), 'r'), A.Target(A.Function('last', [e]), 'l')], A.Table('v'),
                                  None, None, None, None, None, None),
                         A.Select([A.Target(A.Asterisk(), None)], A.Select([A.Target(e, 'r'), A.Target(t, 't')], A.Table('v'), None, None,
                                                                            None, None, None, None), None, None, None, None, None, None)]
                for k, stmt in enumerate(stmts):
                    r = execute(conn, stmt)
                    if r[0] == 'rejected':
                        sh.count('untyped_rejected')
                        break
                    if r[0] == 'ok':
                        n += 1
                        check_result(label, r[1], r[2], dcontext, fails)
                        continue
                    if k:
                        continue
                    # a cast or operator failed on some row: row by row
                    for row in rows:
                        conn.tables['v'] = htables.HTable('v', [('o', object), ('t', typ)], [row])
                        r1 = execute(conn, plain)
                        if r1[0] == 'ok':
                            n += 1
                            check_result(f'{label} on {row!r}', r1[1], r1[2], dcontext, fails)
                        else:
                            sh.count('untyped_row_errors')
                    conn.tables['v'] = htables.HTable('v', [('o', object), ('t', typ)], rows)
                    break
    sh.record('untyped-operands', n > 0, {'statements_observed': n}, n=max(n, 1))
    return fails


PARTS = {'registry': prop_registry, 'connectives': prop_connectives, 'subquery': prop_subquery, 'coalesce': prop_coalesce, 'pivot': prop_pivot, 'untyped': prop_untyped, 'ledger': prop_ledger}


def run(sh):
    case = {'slice': [sh.index, sh.n]}
    for sig, detail in prop_registry(sh, case):
        sh.fail(sig, detail, case, 'registry')
    if sh.index == 1 % sh.n:
        for sig, detail in prop_coalesce(sh, None):
            sh.fail(sig, detail, None, 'coalesce')
    if sh.index == 4 % sh.n:
        for sig, detail in prop_subquery(sh, None):
            sh.fail(sig, detail, None, 'subquery')
    if sh.index == 3 % sh.n:
        for sig, detail in prop_connectives(sh, None):
            sh.fail(sig, detail, None, 'connectives')
    if sh.index == 2 % sh.n:
        for sig, detail in prop_pivot(sh, None):
            sh.fail(sig, detail, None, 'pivot')
    if sh.index == 5 % sh.n:
        for sig, detail in prop_untyped(sh, None):
            sh.fail(sig, detail, None, 'untyped')
    sh.search('ledger', ledger_case(), prop_ledger, quick=800, thorough=30000)
