"""Generated Beancount ledgers: structured description -> Beancount text -> loader.

The generator tracks lots so that reductions match existing lots and every transaction
balances exactly; a generated ledger that loads with errors is a generator bug."""
import datetime
from decimal import Decimal as D

from hypothesis import strategies as st

ROOTS = ['Assets', 'Liabilities', 'Equity', 'Income', 'Expenses']
BASE_ACCOUNTS = [
    'Assets:Bank:Checking', 'Assets:Bank:Savings', 'Assets:Broker', 'Assets:Broker:Sub', 'Assets:Cash',
    'Liabilities:Card', 'Liabilities:Loan:Car', 'Equity:Opening', 'Income:Job', 'Income:Gains', 'Income:Gifts',
    'Expenses:Food', 'Expenses:Food:Out', 'Expenses:Rent', 'Expenses:Fees',
]
CASH = ['USD', 'EUR']
STOCKS = ['HOOL', 'BTC']
OPEN_DATE = datetime.date(2018, 12, 31)
START = datetime.date(2019, 1, 1)

META_VALUES = st.one_of(
    st.sampled_from(['x', 'some text', 'A-1', '']),
    st.integers(-5, 500).map(D),
    st.builds(lambda m: D(m).scaleb(-2), st.integers(-9999, 9999)),
    st.dates(datetime.date(2018, 1, 1), datetime.date(2020, 12, 31)),
    st.booleans(),
    st.sampled_from(['Assets:Cash', 'Expenses:Food']).map(lambda a: ('account', a)),
    st.sampled_from(['USD', 'HOOL']).map(lambda c: ('currency', c)),
    st.sampled_from([('amount', D('1.50'), 'USD'), ('amount', D('3'), 'HOOL')]),
    st.sampled_from(['#tag']).map(lambda t: ('tag', t[1:])),
    st.none(),
)
META_KEYS = ['ref', 'note', 'when', 'amt', 'flagged', 'k1', 'checkNo', 'inv-id']


def metas(max_size=3):
    return st.dictionaries(st.sampled_from(META_KEYS), META_VALUES, max_size=max_size)


def money(lo=1, hi=200000):
    return st.integers(lo, hi).map(lambda n: D(n).scaleb(-2))


def odd_money():
    """Amounts with more (or fewer) fractional digits than the ledger's usual two."""
    return st.one_of(st.integers(1, 99999).map(lambda n: D(n).scaleb(-4)), st.integers(1, 9999).map(lambda n: D(n).scaleb(-3)),
                     st.integers(1, 500).map(D), st.integers(1, 999).map(lambda n: D(n).scaleb(-1)))


@st.composite
def ledgers(draw, max_txns=10, with_pad=True, with_extras=True, min_txns=1, many_extras=False, empty_narrations=False):
    accounts = list(BASE_ACCOUNTS)
    desc = {'title': 'generated', 'commodities': [], 'accounts': [], 'directives': []}
    for cur in CASH + STOCKS:
        if draw(st.booleans()):
            desc['commodities'].append({'cur': cur, 'meta': draw(metas(2)),
                                        'name': draw(st.sampled_from([None, 'A name', 'Other']))})
    closed = draw(st.sets(st.sampled_from(['Assets:Bank:Savings', 'Expenses:Rent', 'Income:Gifts']), max_size=2))
    for a in accounts:
        desc['accounts'].append({'name': a, 'open': OPEN_DATE, 'meta': draw(metas(2)) if draw(st.integers(0, 2)) == 0 else {},
                                 'currencies': ['USD', 'EUR'] if a == 'Assets:Bank:Checking' and draw(st.booleans()) else None})
    lots = {}        # (account, currency, cost number, cost currency, lot date, label) -> units
    date = START
    ntx = draw(st.integers(min_txns, max_txns))
    directives = desc['directives']
    used = set()
    if with_pad and draw(st.integers(0, 2)) == 0:
        amt = draw(money(100, 500000))
        directives.append({'kind': 'pad', 'date': date, 'account': 'Assets:Cash', 'source': 'Equity:Opening'})
        directives.append({'kind': 'balance', 'date': date + datetime.timedelta(days=1), 'account': 'Assets:Cash',
                           'amount': (amt, 'USD')})
        if draw(st.booleans()):
            # a second currency padded by the same pad directive: two synthesized transactions share its location
            directives.append({'kind': 'balance', 'date': date + datetime.timedelta(days=1), 'account': 'Assets:Cash',
                               'amount': (draw(money(100, 500000)), 'EUR')})
        date += datetime.timedelta(days=1)
        used.add('Assets:Cash')
    for i in range(ntx):
        date += datetime.timedelta(days=draw(st.sampled_from([0, 0, 1, 1, 2, 7, 30])))
        kind = draw(st.sampled_from(['simple', 'simple', 'multi', 'buy', 'buy', 'sell', 'sell', 'convert', 'gift']))
        if kind == 'sell' and not lots:
            kind = 'buy'
        postings = []
        usable = [a for a in accounts if a not in closed and a != 'Assets:Cash' or a == 'Assets:Cash' and False]
        if kind == 'simple':
            cur = draw(st.sampled_from(CASH))
            amt = draw(money()) if draw(st.integers(0, 4)) else draw(odd_money())
            a, b = draw(st.sampled_from(usable)), draw(st.sampled_from(usable))
            postings = [{'account': a, 'units': (amt, cur)}, {'account': b, 'units': (-amt, cur)}]
        elif kind == 'multi':
            cur = draw(st.sampled_from(CASH))
            n = draw(st.integers(2, 4))
            total = D(0)
            for _ in range(n):
                amt = draw(money(1, 50000))
                postings.append({'account': draw(st.sampled_from(usable)), 'units': (amt, cur)})
                total += amt
            postings.append({'account': draw(st.sampled_from(usable)), 'units': (-total, cur)})
        elif kind == 'buy':
            stock = draw(st.sampled_from(STOCKS))
            acct = draw(st.sampled_from(['Assets:Broker', 'Assets:Broker:Sub']))
            units = D(draw(st.integers(1, 20)))
            cost = draw(money(100, 50000)) if draw(st.integers(0, 7)) else D('0.00')     # sometimes a lot at zero cost
            ccur = draw(st.sampled_from(CASH))
            label = draw(st.sampled_from([None, None, f'lot{i}']))
            # a lot spec without label also matches labelled lots: keep one label per (account, commodity, cost, date)
            for other in lots:
                if other[:5] == (acct, stock, cost, ccur, date):
                    label = other[5]
            postings = [{'account': acct, 'units': (units, stock), 'cost': (cost, ccur, None, label)},
                        {'account': 'Assets:Bank:Checking', 'units': (-units * cost, ccur)}]
            key = (acct, stock, cost, ccur, date, label)
            lots[key] = lots.get(key, D(0)) + units
        elif kind == 'sell':
            key = draw(st.sampled_from(sorted(lots, key=repr)))
            acct, stock, cost, ccur, ldate, label = key
            have = lots[key]
            units = D(draw(st.integers(1, int(have))))
            price = cost + draw(st.sampled_from([D('-1.00'), D('0'), D('2.50'), D('10')]))
            if price <= 0:
                price = cost
            postings = [{'account': acct, 'units': (-units, stock), 'cost': (cost, ccur, ldate, label), 'price': (price, ccur)},
                        {'account': 'Assets:Bank:Checking', 'units': (units * price, ccur)}]
            gain = units * (price - cost)
            if gain != 0:
                postings.append({'account': 'Income:Gains', 'units': (-gain, ccur)})
            if have == units:
                del lots[key]
            else:
                lots[key] = have - units
        elif kind == 'gift':
            # units of a stock held without cost, in an account that may also hold lots of it at cost
            stock = draw(st.sampled_from(STOCKS))
            units = D(draw(st.integers(1, 9)))
            postings = [{'account': draw(st.sampled_from(['Assets:Broker', 'Assets:Broker:Sub'])), 'units': (units, stock)},
                        {'account': 'Income:Gifts' if 'Income:Gifts' not in closed else 'Equity:Opening', 'units': (-units, stock)}]
        else:
            units = D(draw(st.integers(1, 500)))
            rate = draw(st.sampled_from([D('0.90'), D('1.10'), D('1.25'), D('0.5')]))
            postings = [{'account': 'Assets:Bank:Checking', 'units': (-units, 'USD'), 'price': (rate, 'EUR')},
                        {'account': draw(st.sampled_from(['Assets:Bank:Checking', 'Assets:Bank:Savings'])
                                         if 'Assets:Bank:Savings' not in closed else st.just('Assets:Bank:Checking')),
                         'units': (units * rate, 'EUR')}]
        for p in postings:
            used.add(p['account'])
            if draw(st.integers(0, 4)) == 0:
                p['meta'] = draw(metas(2))
            if draw(st.integers(0, 9)) == 0:
                p['flag'] = '!'
        if draw(st.booleans()):
            postings = draw(st.permutations(postings))
        directives.append({
            'kind': 'txn', 'date': date, 'flag': draw(st.sampled_from(['*', '*', '!'])),
            'payee': draw(st.sampled_from([None, None, 'Shop', 'Employer Inc'])),
            'narration': '' if empty_narrations and draw(st.integers(0, 5)) == 0 else
                         f'T{i} ' + draw(st.sampled_from(['', 'groceries', 'salary', 'misc stuff'])),
            'tags': sorted(draw(st.sets(st.sampled_from(['trip', 'food', 'work']), max_size=2))),
            'links': sorted(draw(st.sets(st.sampled_from(['inv-1', 'inv-2']), max_size=1))),
            'meta': draw(metas(3)) if draw(st.integers(0, 2)) == 0 else {},
            'postings': list(postings)})
        if kind not in ('buy', 'sell') and draw(st.integers(0, 5)) == 0:
            # the same transaction once more (two equal coffees on one day): equal but for the line number
            directives.append(dict(directives[-1]))
        if with_extras and draw(st.integers(0, 2)) == 0:
            ekind = draw(st.sampled_from(['price', 'price', 'note', 'event', 'document', 'query', 'custom']))
            edate = date + datetime.timedelta(days=draw(st.integers(0, 1)))
            date = edate
            if ekind == 'price':
                directives.append({'kind': 'price', 'date': edate, 'currency': draw(st.sampled_from(STOCKS + ['EUR'])),
                                   'amount': (draw(money(50, 60000)), 'USD'), 'meta': draw(metas(1))})
            elif ekind == 'note':
                directives.append({'kind': 'note', 'date': edate, 'account': draw(st.sampled_from(usable)),
                                   'comment': draw(st.sampled_from(['called', 'a note', 'x'])), 'meta': draw(metas(1)),
                                   'tags': sorted(draw(st.sets(st.sampled_from(['trip', 'food']), max_size=1)))})
            elif ekind == 'event':
                directives.append({'kind': 'event', 'date': edate, 'type': draw(st.sampled_from(['location', 'job'])),
                                   'description': draw(st.sampled_from(['Paris', 'NYC', 'Acme']))})
            elif ekind == 'document':
                directives.append({'kind': 'document', 'date': edate, 'account': draw(st.sampled_from(usable)),
                                   'filename': '/etc/hostname',
                                   'tags': sorted(draw(st.sets(st.sampled_from(['trip', 'work']), max_size=1)))})
            elif ekind == 'query':
                directives.append({'kind': 'query', 'date': edate, 'name': f'q{i}',
                                   'text': draw(st.sampled_from(['SELECT account, sum(position) GROUP BY 1',
                                                                 'SELECT date, narration WHERE number > 10',
                                                                 'BALANCES', 'SELECT account FROM year = 2019']))})
            else:
                directives.append({'kind': 'custom', 'date': edate, 'type': 'budget', 'values': ['Expenses:Food', D('10.00')]})
    if many_extras:
        # several notes / events / documents / prices with crossing values, so that the typed tables
        # have rows on which columns of one datatype order and partition differently
        for j in range(draw(st.integers(3, 8))):
            edate = START + datetime.timedelta(days=draw(st.integers(0, 120)))
            ekind = draw(st.sampled_from(['note', 'note', 'event', 'event', 'document', 'price']))
            acct = draw(st.sampled_from(['Assets:Cash', 'Expenses:Food', 'Income:Job', 'Assets:Broker']))
            if ekind == 'note':
                directives.append({'kind': 'note', 'date': edate, 'account': acct,
                                   'comment': draw(st.sampled_from(['zz', 'aa', 'mm', 'Assets:Cash'])), 'meta': {}})
            elif ekind == 'event':
                directives.append({'kind': 'event', 'date': edate, 'type': draw(st.sampled_from(['location', 'job', 'zip'])),
                                   'description': draw(st.sampled_from(['Paris', 'NYC', 'Acme', 'job']))})
            elif ekind == 'document':
                directives.append({'kind': 'document', 'date': edate, 'account': acct,
                                   'filename': draw(st.sampled_from(['/etc/hostname', '/etc/passwd', '/etc/hosts']))})
            else:
                directives.append({'kind': 'price', 'date': edate, 'currency': draw(st.sampled_from(STOCKS + ['EUR'])),
                                   'amount': (draw(money(50, 60000)), 'USD'), 'meta': {}})
        directives.sort(key=lambda d: d['date'])
        date = max(date, max(d['date'] for d in directives))
    desc['end'] = date
    for a in desc['accounts']:
        if a['name'] in closed and a['name'] not in used:
            a['close'] = date + datetime.timedelta(days=1)
    desc['tz'] = None
    return desc


# ------------------------------------------------------------------ rendering

def _num(d):
    s = format(d, 'f')
    return s


def _meta_value(v):
    if v is None:
        return ''
    if isinstance(v, bool):
        return 'TRUE' if v else 'FALSE'
    if isinstance(v, D):
        return _num(v)
    if isinstance(v, datetime.date):
        return v.isoformat()
    if isinstance(v, tuple):
        if v[0] in ('account', 'currency'):
            return v[1]
        if v[0] == 'amount':
            return f'{_num(v[1])} {v[2]}'
        if v[0] == 'tag':
            return '#' + v[1]
    return '"' + v + '"'


def _meta_lines(meta, indent):
    return [f'{indent}{k}: {_meta_value(v)}'.rstrip() for k, v in (meta or {}).items()]


def render(desc):
    out = [f'option "title" "{desc["title"]}"', 'option "operating_currency" "USD"', '']
    for c in desc['commodities']:
        out.append(f'{OPEN_DATE.isoformat()} commodity {c["cur"]}')
        if c.get('name'):
            out.append(f'  name: "{c["name"]}"')
        out += _meta_lines(c.get('meta'), '  ')
    for a in desc['accounts']:
        curs = (' ' + ','.join(a['currencies'])) if a.get('currencies') else ''
        out.append(f'{a["open"].isoformat()} open {a["name"]}{curs}')
        out += _meta_lines(a.get('meta'), '  ')
    out.append('')
    for d in desc['directives']:
        date = d['date'].isoformat()
        k = d['kind']
        if k == 'txn':
            head = f'{date} {d["flag"]}'
            if d.get('payee') is not None:
                head += f' "{d["payee"]}"'
            head += f' "{d["narration"]}"'
            for t in d.get('tags', ()):
                head += f' #{t}'
            for t in d.get('links', ()):
                head += f' ^{t}'
            out.append(head)
            out += _meta_lines(d.get('meta'), '  ')
            for p in d['postings']:
                num, cur = p['units']
                line = '  ' + (p['flag'] + ' ' if p.get('flag') else '') + f'{p["account"]}  {_num(num)} {cur}'
                if p.get('cost'):
                    cnum, ccur, cdate, label = p['cost']
                    parts = [f'{_num(cnum)} {ccur}']
                    if cdate:
                        parts.append(cdate.isoformat())
                    if label:
                        parts.append(f'"{label}"')
                    line += ' {' + ', '.join(parts) + '}'
                if p.get('price'):
                    line += f' @ {_num(p["price"][0])} {p["price"][1]}'
                out.append(line)
                out += _meta_lines(p.get('meta'), '    ')
        elif k == 'price':
            out.append(f'{date} price {d["currency"]} {_num(d["amount"][0])} {d["amount"][1]}')
            out += _meta_lines(d.get('meta'), '  ')
        elif k == 'note':
            out.append(f'{date} note {d["account"]} "{d["comment"]}"' + ''.join(f' #{t}' for t in d.get('tags', ())))
            out += _meta_lines(d.get('meta'), '  ')
        elif k == 'event':
            out.append(f'{date} event "{d["type"]}" "{d["description"]}"')
        elif k == 'document':
            out.append(f'{date} document {d["account"]} "{d["filename"]}"' + ''.join(f' #{t}' for t in d.get('tags', ())))
        elif k == 'query':
            out.append(f'{date} query "{d["name"]}" "{d["text"]}"')
        elif k == 'custom':
            out.append(f'{date} custom "{d["type"]}" {d["values"][0]} {_num(d["values"][1])} USD')
        elif k == 'pad':
            out.append(f'{date} pad {d["account"]} {d["source"]}')
        elif k == 'balance':
            out.append(f'{date} balance {d["account"]}  {_num(d["amount"][0])} {d["amount"][1]}')
        out.append('')
    for a in desc['accounts']:
        if a.get('close'):
            out.append(f'{a["close"].isoformat()} close {a["name"]}')
    return '\n'.join(out) + '\n'
