"""BQL intermediate representation shared by the generators, the unparser, the reference
model and the AST builder.

Expressions are JSON-friendly lists:
  ['col', name]                      ['const', tname, value]   (value >= 0 for numbers)
  ['list', [['const', ...], ...]]    ['ph', name-or-None]      ['star']
  ['neg', e]  ['not', e]  ['isnull', e]  ['isnotnull', e]
  ['add'|'sub'|'mul'|'div'|'mod', l, r]
  ['eq'|'ne'|'lt'|'le'|'gt'|'ge'|'match'|'notmatch'|'in'|'notin', l, r]
  ['between', e, lo, hi]             ['and'|'or', [args]]
  ['fn', name, [args]]               ['attr', e, name]         ['item', e, key]
  ['subq', select]
Statements are dicts, see select() below.  Type names: int decimal str date bool object null
list (and set dict amount position inventory interval for ledger checks).
"""
import datetime
from decimal import Decimal

ARITH = {'add': '+', 'sub': '-', 'mul': '*', 'div': '/', 'mod': '%'}
CMP = {'eq': '=', 'ne': '!=', 'lt': '<', 'le': '<=', 'gt': '>', 'ge': '>=',
       'match': '~', 'notmatch': '!~', 'in': 'IN', 'notin': 'NOT IN'}
NUM = ('int', 'decimal')

KEYWORDS = {'and', 'as', 'asc', 'by', 'desc', 'distinct', 'false', 'from', 'group', 'having', 'in', 'is',
            'limit', 'not', 'or', 'order', 'pivot', 'select', 'true', 'where', 'balances', 'journal', 'print'}
# words the grammar treats specially in some positions although they are not reserved
CONTEXTUAL = {'open', 'close', 'clear', 'on', 'at', 'null', 'between'}

AGGREGATES = {'count', 'sum', 'min', 'max', 'first', 'last'}


class IllTyped(Exception):
    pass


def const(v):
    """IR for a Python value (negative numbers become a negated non-negative constant)."""
    if v is None:
        return ['const', 'null', None]
    if isinstance(v, bool):
        return ['const', 'bool', v]
    if isinstance(v, int):
        return ['neg', ['const', 'int', -v]] if v < 0 else ['const', 'int', v]
    if isinstance(v, Decimal):
        if v.is_signed() and v != 0:
            return ['neg', ['const', 'decimal', -v]]
        return ['const', 'decimal', abs(v)]
    if isinstance(v, str):
        return ['const', 'str', v]
    if isinstance(v, datetime.date):
        return ['const', 'date', v]
    if isinstance(v, list):
        return ['list', [const(x) for x in v]]
    raise TypeError(v)


def select(targets, from_=None, where=None, group_by=None, having=None, order_by=None, pivot_by=None,
           limit=None, distinct=False):
    """targets: '*' or [(expr, alias-or-None)]; from_: None | ('table', name) | ('subq', select) |
    ('expr', expr-or-None, open, close, clear); group_by: None | [int | expr]; order_by: None |
    [(int | expr, 'ASC' | 'DESC' | None)]; pivot_by: None | [int | name, int | name]."""
    return {'kind': 'select', 'targets': targets, 'from': from_, 'where': where, 'group_by': group_by,
            'having': having, 'order_by': order_by, 'pivot_by': pivot_by, 'limit': limit, 'distinct': distinct}


# ---------------------------------------------------------------------------- typing

def arith_type(op, lt, rt):
    if lt in NUM and rt in NUM:
        if op == 'div':
            return 'decimal'
        return 'int' if lt == 'int' and rt == 'int' else 'decimal'
    if op == 'add' and ((lt, rt) == ('date', 'int') or (lt, rt) == ('int', 'date')):
        return 'date'
    if op == 'sub' and (lt, rt) == ('date', 'int'):
        return 'date'
    if op == 'sub' and (lt, rt) == ('date', 'date'):
        return 'int'
    return None


def cmp_ok(op, lt, rt):
    if op in ('match', 'notmatch'):
        return lt == 'str' and rt == 'str'
    if op in ('in', 'notin'):
        return rt in ('list', 'set', 'dict')
    return (lt in NUM and rt in NUM) or (lt == rt and lt in ('date', 'str'))


def cast_target(t):
    return 'decimal' if t == 'int' else t


FUNCS = {
    'abs': [(('decimal',), 'decimal')],
    'neg': [(('decimal',), 'decimal')],
    'length': [(('str',), 'int')],
    'upper': [(('str',), 'str')],
    'lower': [(('str',), 'str')],
    'str': [(('any',), 'str')],
    'bool': [(('any',), 'bool')],
    'int': [((t,), 'int') for t in ('int', 'bool', 'decimal', 'str', 'object')],
    'decimal': [((t,), 'decimal') for t in ('decimal', 'int', 'bool', 'str', 'object')],
    'date': [((t,), 'date') for t in ('date', 'str', 'object')] + [(('int', 'int', 'int'), 'date')],
    'year': [(('date',), 'int')],
    'month': [(('date',), 'int')],
    'day': [(('date',), 'int')],
    'quarter': [(('date',), 'str')],
    'weekday': [(('date',), 'str')],
    'yearmonth': [(('date',), 'date')],
    'round': [(('decimal',), 'decimal'), (('decimal', 'int'), 'decimal'), (('int',), 'int'), (('int', 'int'), 'int')],
    'safediv': [(('decimal', 'decimal'), 'decimal'), (('decimal', 'int'), 'decimal')],
    'substr': [(('str', 'int', 'int'), 'str')],
    'date_add': [(('date', 'int'), 'date')],
    'date_diff': [(('date', 'date'), 'int')],
}


def func_type(name, argtypes):
    for sig, ret in FUNCS.get(name, ()):
        if len(sig) == len(argtypes) and all(s == 'any' or s == a or (a == 'null' and s == 'object')
                                             for s, a in zip(sig, argtypes)):
            return ret
    return None


def infer(e, env):
    """Static BQL type of expression e; env maps column name -> type name."""
    k = e[0]
    if k == 'col':
        if e[1] not in env:
            raise IllTyped(f'unknown column {e[1]}')
        return env[e[1]]
    if k == 'const':
        return e[1]
    if k == 'list':
        return 'list'
    if k == 'subq':
        return 'list'
    if k == 'neg':
        t = infer(e[1], env)
        if t not in NUM:
            raise IllTyped(f'neg {t}')
        return t
    if k in ('not', 'isnull', 'isnotnull'):
        infer(e[1], env)
        return 'bool'
    if k in ARITH:
        lt, rt = infer(e[1], env), infer(e[2], env)
        lt, rt = implicit(lt, rt)
        t = arith_type(k, lt, rt)
        if t is None:
            raise IllTyped(f'{k} {lt} {rt}')
        return t
    if k in CMP:
        lt, rt = infer(e[1], env), infer(e[2], env)
        if k not in ('in', 'notin'):
            lt, rt = implicit(lt, rt)
        if not cmp_ok(k, lt, rt):
            raise IllTyped(f'{k} {lt} {rt}')
        return 'bool'
    if k == 'between':
        ts = [infer(x, env) for x in e[1:4]]
        if not (all(t in NUM for t in ts) or (ts[0] in ('date', 'str') and ts.count(ts[0]) == 3)):
            raise IllTyped(f'between {ts}')
        return 'bool'
    if k in ('and', 'or'):
        for a in e[1]:
            infer(a, env)
        return 'bool'
    if k == 'fn':
        name, args = e[1], e[2]
        if name == 'coalesce':
            ts = [infer(a, env) for a in args]
            if not ts or any(t != ts[0] for t in ts):
                raise IllTyped(f'coalesce {ts}')
            return ts[0]
        if name == 'count':
            return 'int'
        if name in ('sum',):
            t = infer(args[0], env)
            if t not in NUM:
                raise IllTyped(f'sum {t}')
            return t
        if name in ('min', 'max', 'first', 'last'):
            return infer(args[0], env)
        ts = [infer(a, env) for a in args]
        t = func_type(name, ts)
        if t is None:
            raise IllTyped(f'{name}{ts}')
        return t
    raise IllTyped(f'cannot type {k}')


def implicit(lt, rt):
    """Implicit cast of an untyped (object) operand to the type of the other operand."""
    if lt == 'object' and rt not in ('object', 'null', 'list', 'bool'):
        return cast_target(rt), rt
    if rt == 'object' and lt not in ('object', 'null', 'list', 'bool'):
        return lt, cast_target(lt)
    return lt, rt


def is_aggregate(e):
    """True when the expression contains an aggregate function call."""
    k = e[0]
    if k == 'fn' and e[1] in AGGREGATES:
        return True
    return any(is_aggregate(c) for c in children(e))


def children(e):
    k = e[0]
    if k in ('col', 'const', 'ph', 'star', 'subq'):
        return []
    if k == 'list':
        return []
    if k in ('neg', 'not', 'isnull', 'isnotnull'):
        return [e[1]]
    if k in ARITH or k in CMP:
        return [e[1], e[2]]
    if k == 'between':
        return [e[1], e[2], e[3]]
    if k in ('and', 'or'):
        return list(e[1])
    if k == 'fn':
        return list(e[2])
    if k in ('attr', 'item'):
        return [e[1]]
    raise ValueError(k)


def walk(e):
    yield e
    for c in children(e):
        yield from walk(c)


def depth(e):
    cs = children(e)
    return 1 + (max(depth(c) for c in cs) if cs else 0)


# ---------------------------------------------------------------------------- printing

# precedence levels (higher binds tighter)
P_OR, P_AND, P_NOT, P_CMP, P_SUM, P_TERM, P_UNARY, P_PRIMARY, P_ATOM = range(9)


def level(e):
    k = e[0]
    if k == 'or':
        return P_OR
    if k == 'and':
        return P_AND
    if k == 'not':
        return P_NOT
    if k in CMP or k in ('isnull', 'isnotnull', 'between'):
        return P_CMP
    if k in ('add', 'sub'):
        return P_SUM
    if k in ('mul', 'div', 'mod'):
        return P_TERM
    if k == 'neg':
        return P_UNARY
    if k in ('attr', 'item'):
        return P_PRIMARY
    if k == 'subq':
        return P_OR - 1      # a sub-select always needs its parentheses
    return P_ATOM


class Style:
    """Printing style.  `rnd` is None (canonical: minimal parentheses, upper-case keywords, single
    spaces) or an object with .boolean(p) / .choice(seq) drawing from Hypothesis."""

    def __init__(self, rnd=None, parens=0.0, case=False, space=False, comments=False, uplus=False, numforms=False):
        self.rnd = rnd
        self.parens = parens if rnd else 0.0
        self.case = case and rnd is not None
        self.space = space and rnd is not None
        self.comments = comments and rnd is not None
        self.uplus = uplus and rnd is not None
        self.numforms = numforms and rnd is not None

    def flip(self, p):
        return self.rnd is not None and p > 0 and self.rnd.boolean(p)

    def kw(self, word):
        if not self.case:
            return word
        return ''.join(self.rnd.choice((c.lower(), c.upper())) for c in word)

    def ident(self, name):
        if not self.case:
            return name
        return ''.join(self.rnd.choice((c.lower(), c.upper())) for c in name)

    def sp(self):
        """Mandatory separator between two tokens."""
        if self.rnd is None or not (self.space or self.comments):
            return ' '
        s = self.rnd.choice((' ', ' ', ' ', '  ', '\t', '\n', ' \n ')) if self.space else ' '
        if self.comments and self.rnd.boolean(0.1):
            s += self.rnd.choice(('/* c */', '/**/', '/* a * b / c */', '/* ; */ ', '; x y\n', ';\n', '/** banner **/', '/***/',
                                  '/* x ****/', '/* * */', '/*/ */', '/* SELECT */', "/* ' */", '/* \n */')) + ' '
        return s

    def osp(self):
        """Optional separator (may be empty) between tokens that cannot fuse."""
        if self.rnd is None or not self.space:
            return ''
        return self.rnd.choice(('', '', ' ', '  ', '\n'))


CANON = Style()


def lit(e, st=CANON):
    t, v = e[1], e[2]
    if t == 'null':
        return st.kw('NULL')
    if t == 'bool':
        return st.kw('TRUE' if v else 'FALSE')
    if t == 'int':
        s = str(v)
        if st.numforms and st.flip(0.2):
            s = '0' * st.rnd.choice((1, 2)) + s
        return s
    if t == 'decimal':
        s = format(v, 'f')
        if '.' not in s:
            s += '.'
        elif st.numforms and s.startswith('0.') and len(s) > 2 and st.flip(0.3):
            s = s[1:]
        return s
    if t == 'str':
        if "'" not in v and (st.rnd is None or '"' in v or st.rnd.boolean(0.5)):
            return f"'{v}'"
        if '"' in v:
            raise ValueError('string not expressible in BQL: contains both quote characters')
        return f'"{v}"'
    if t == 'date':
        return v.isoformat()
    raise ValueError(t)


def expr(e, st=CANON, need=P_OR):
    """Text of e for a position that requires at least precedence level `need`."""
    mine = level(e)
    s = _expr(e, st)
    if e[0] == 'star':
        return s
    if st.uplus and mine == P_ATOM and need <= P_UNARY and e[0] != 'star' and st.flip(0.06):
        s = '+' + st.osp() + s      # unary plus is accepted in front of an atom and leaves no trace
        mine = P_UNARY
    wrap = mine < need
    if not wrap and need <= P_UNARY and st.flip(st.parens):
        wrap = True      # redundant parentheses: legal wherever a factor is (need <= P_UNARY)
    if wrap:
        s = '(' + st.osp() + s + st.osp() + ')'
        if st.flip(st.parens / 3) and need <= P_UNARY:
            s = '(' + s + ')'
    return s


def _expr(e, st):
    k = e[0]
    sp, osp = st.sp, st.osp
    if k == 'col':
        return st.ident(e[1])
    if k == 'const':
        return lit(e, st)
    if k == 'list':
        items = [lit(x, st) for x in e[1]]
        if len(items) == 1:
            return '(' + osp() + items[0] + osp() + ',' + osp() + ')'
        return '(' + osp() + (osp() + ',' + osp()).join(items) + osp() + ')'
    if k == 'ph':
        return '%s' if e[1] is None else '%(' + st.ident(e[1]) + ')s'
    if k == 'star':
        return '*'
    if k == 'subq':
        return statement(e[1], st)
    if k == 'neg':
        return '-' + osp() + expr(e[1], st, P_UNARY)
    if k == 'not':
        return st.kw('NOT') + sp() + expr(e[1], st, P_NOT)
    if k == 'isnull':
        return expr(e[1], st, P_SUM) + sp() + st.kw('IS') + sp() + st.kw('NULL')
    if k == 'isnotnull':
        return expr(e[1], st, P_SUM) + sp() + st.kw('IS') + sp() + st.kw('NOT') + sp() + st.kw('NULL')
    if k in ('add', 'sub'):
        return expr(e[1], st, P_SUM) + sp() + ARITH[k] + sp() + expr(e[2], st, P_TERM)
    if k in ('mul', 'div', 'mod'):
        return expr(e[1], st, P_TERM) + sp() + ARITH[k] + sp() + expr(e[2], st, P_UNARY)
    if k in CMP:
        op = CMP[k]
        if k == 'in':
            op = st.kw('IN')
        elif k == 'notin':
            op = st.kw('NOT') + sp() + st.kw('IN')
        return expr(e[1], st, P_SUM) + sp() + op + sp() + expr(e[2], st, P_SUM)
    if k == 'between':
        return (expr(e[1], st, P_SUM) + sp() + st.kw('BETWEEN') + sp() + expr(e[2], st, P_SUM) + sp() +
                st.kw('AND') + sp() + expr(e[3], st, P_SUM))
    if k == 'and':
        return (sp() + st.kw('AND') + sp()).join(expr(a, st, P_NOT) for a in e[1])
    if k == 'or':
        return (sp() + st.kw('OR') + sp()).join(expr(a, st, P_AND) for a in e[1])
    if k == 'fn':
        args = (osp() + ',' + osp()).join(expr(a, st, P_OR) for a in e[2])
        return st.ident(e[1]) + osp() + '(' + osp() + args + osp() + ')'
    if k == 'attr':
        return expr(e[1], st, P_PRIMARY) + osp() + '.' + osp() + st.ident(e[2])
    if k == 'item':
        return expr(e[1], st, P_PRIMARY) + osp() + '[' + osp() + lit(['const', 'str', e[2]], st) + osp() + ']'
    raise ValueError(k)


def from_text(f, st):
    kind = f[0]
    if kind == 'table':
        return '#' + f[1]
    if kind == 'subq':
        return '(' + st.osp() + statement(f[1], st) + st.osp() + ')'
    _, e, open_, close, clear = f
    parts = []
    if e is not None:
        t = expr(e, st)
        if leftmost(e)[0] == 'subq':
            # `FROM (SELECT ...) ...` is tried as a sub-select first; parenthesise to stay an expression
            t = '(' + t + ')'
        parts.append(t)
    if open_ is not None:
        parts.append(st.kw('OPEN') + st.sp() + st.kw('ON') + st.sp() + open_.isoformat())
    if close is not None:
        parts.append(st.kw('CLOSE') if close is True else
                     st.kw('CLOSE') + st.sp() + st.kw('ON') + st.sp() + close.isoformat())
    if clear:
        parts.append(st.kw('CLEAR'))
    return st.sp().join(parts)


def leftmost(e):
    """The leaf whose text comes first when e is printed."""
    k = e[0]
    if k in ('attr', 'item', 'isnull', 'isnotnull', 'between') or k in ARITH or k in CMP:
        return leftmost(e[1])
    if k in ('and', 'or'):
        return leftmost(e[1][0])
    return e


def key_text(k, st):
    """GROUP BY / ORDER BY item.  The grammar tries `integer` before `expression`, so an
    expression whose text starts with a digit has to be parenthesised to stay an expression."""
    if isinstance(k, int):
        return str(k)
    t = expr(k, st)
    if t[:1].isdigit():
        t = '(' + t + ')'
    return t


def target_texts(sel, st=CANON):
    """Text of each target expression (without alias), as printed."""
    return [expr(e, st) for e, _ in sel['targets']]


def statement(s, st=CANON, target_out=None):
    """Text of a statement.  If target_out is a list it receives the printed text of every target
    expression of the outermost SELECT."""
    sp = st.sp
    kind = s['kind']
    if kind == 'select':
        out = [st.kw('SELECT')]
        if s.get('distinct'):
            out.append(st.kw('DISTINCT'))
        if s['targets'] == '*':
            out.append('*')
        else:
            ts = []
            for e, alias in s['targets']:
                t = expr(e, st)
                if target_out is not None:
                    target_out.append(t)
                if alias is not None:
                    t += sp() + st.kw('AS') + sp() + st.ident(alias)
                ts.append(t)
            out.append((st.osp() + ',' + st.sp()).join(ts))
        if s.get('from') is not None:
            out += [st.kw('FROM'), from_text(s['from'], st)]
        if s.get('where') is not None:
            out += [st.kw('WHERE'), expr(s['where'], st)]
        if s.get('group_by') is not None:
            keys = [key_text(k, st) for k in s['group_by']]
            out += [st.kw('GROUP'), st.kw('BY'), (st.osp() + ',' + st.sp()).join(keys)]
            if s.get('having') is not None:
                out += [st.kw('HAVING'), expr(s['having'], st)]
        if s.get('order_by') is not None:
            keys = []
            for k, d in s['order_by']:
                t = key_text(k, st)
                if d is not None:
                    t += sp() + st.kw(d)
                keys.append(t)
            out += [st.kw('ORDER'), st.kw('BY'), (st.osp() + ',' + st.sp()).join(keys)]
        if s.get('pivot_by') is not None:
            keys = [str(k) if isinstance(k, int) else st.ident(k) for k in s['pivot_by']]
            out += [st.kw('PIVOT'), st.kw('BY'), (st.osp() + ',' + st.sp()).join(keys)]
        if s.get('limit') is not None:
            out += [st.kw('LIMIT'), str(s['limit'])]
        return _join(out, st)
    if kind == 'balances':
        out = [st.kw('BALANCES')]
        if s.get('at'):
            out += [st.kw('AT'), st.ident(s['at'])]
        if s.get('from') is not None:
            out += [st.kw('FROM'), from_text(s['from'], st)]
        if s.get('where') is not None:
            out += [st.kw('WHERE'), expr(s['where'], st)]
        return _join(out, st)
    if kind == 'journal':
        out = [st.kw('JOURNAL')]
        if s.get('account') is not None:
            out.append(lit(['const', 'str', s['account']], st))
        if s.get('at'):
            out += [st.kw('AT'), st.ident(s['at'])]
        if s.get('from') is not None:
            out += [st.kw('FROM'), from_text(s['from'], st)]
        return _join(out, st)
    if kind == 'print':
        out = [st.kw('PRINT')]
        if s.get('from') is not None:
            out += [st.kw('FROM'), from_text(s['from'], st)]
        return _join(out, st)
    raise ValueError(kind)


def _join(parts, st):
    out = parts[0]
    for p in parts[1:]:
        out += st.sp() + p
    return out


# ---------------------------------------------------------------------------- AST

def to_ast(s):
    """beanquery.parser.ast statement for an IR statement (what parsing its text must yield)."""
    from beanquery.parser import ast as A

    binops = {'add': A.Add, 'sub': A.Sub, 'mul': A.Mul, 'div': A.Div, 'mod': A.Mod, 'eq': A.Equal,
              'ne': A.NotEqual, 'lt': A.Less, 'le': A.LessEq, 'gt': A.Greater, 'ge': A.GreaterEq,
              'match': A.Match, 'notmatch': A.NotMatch, 'in': A.In, 'notin': A.NotIn}

    def ex(e):
        k = e[0]
        if k == 'col':
            return A.Column(e[1])
        if k == 'const':
            return A.Constant(e[2])
        if k == 'list':
            return A.Constant([x[2] for x in e[1]])
        if k == 'ph':
            return A.Placeholder('' if e[1] is None else e[1])
        if k == 'star':
            return A.Asterisk()
        if k == 'subq':
            return st(e[1])
        if k == 'neg':
            return A.Neg(ex(e[1]))
        if k == 'not':
            return A.Not(ex(e[1]))
        if k == 'isnull':
            return A.IsNull(ex(e[1]))
        if k == 'isnotnull':
            return A.IsNotNull(ex(e[1]))
        if k in binops:
            return binops[k](ex(e[1]), ex(e[2]))
        if k == 'between':
            return A.Between(ex(e[1]), ex(e[2]), ex(e[3]))
        if k == 'and':
            return A.And([ex(a) for a in e[1]])
        if k == 'or':
            return A.Or([ex(a) for a in e[1]])
        if k == 'fn':
            return A.Function(e[1], [ex(a) for a in e[2]])
        if k == 'attr':
            return A.Attribute(ex(e[1]), e[2])
        if k == 'item':
            return A.Subscript(ex(e[1]), e[2])
        raise ValueError(k)

    def frm(f):
        if f is None:
            return None
        if f[0] == 'table':
            return A.Table(f[1])
        if f[0] == 'subq':
            return st(f[1])
        _, e, open_, close, clear = f
        return A.From(None if e is None else ex(e), open_, close, True if clear else None)

    def st(s):
        kind = s['kind']
        if kind == 'select':
            targets = A.Asterisk() if s['targets'] == '*' else [A.Target(ex(e), a) for e, a in s['targets']]
            group_by = None
            if s.get('group_by') is not None:
                group_by = A.GroupBy([k if isinstance(k, int) else ex(k) for k in s['group_by']],
                                     None if s.get('having') is None else ex(s['having']))
            order_by = None
            if s.get('order_by') is not None:
                order_by = [A.OrderBy(k if isinstance(k, int) else ex(k),
                                      A.Ordering.DESC if d == 'DESC' else A.Ordering.ASC)
                            for k, d in s['order_by']]
            pivot_by = None
            if s.get('pivot_by') is not None:
                pivot_by = A.PivotBy([k if isinstance(k, int) else A.Column(k) for k in s['pivot_by']])
            return A.Select(targets, frm(s.get('from')), None if s.get('where') is None else ex(s['where']),
                            group_by, order_by, pivot_by, s.get('limit'), True if s.get('distinct') else None)
        if kind == 'balances':
            return A.Balances(s.get('at'), frm(s.get('from')), None if s.get('where') is None else ex(s['where']))
        if kind == 'journal':
            return A.Journal(s.get('account'), s.get('at'), frm(s.get('from')))
        if kind == 'print':
            return A.Print(frm(s.get('from')))
        raise ValueError(kind)

    return st(s)
