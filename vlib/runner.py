"""Check runner: sharding, seeds, Hypothesis driver with collect-then-shrink, known findings,
replay files and evidence.  See DESIGN.md section 2."""
import collections
import hashlib
import importlib
import json
import multiprocessing
import os
import sys
import time
import traceback

ROOT = os.path.dirname(os.path.dirname(os.path.abspath(__file__)))
NSHARDS = int(os.environ.get('VERIF_SHARDS', '16'))
MAX_SAMPLES = 10


class Violation(Exception):
    pass


class HarnessError(Exception):
    pass


def derive_seed(*parts):
    h = hashlib.sha256('/'.join(str(p) for p in parts).encode()).digest()
    return int.from_bytes(h[:8], 'big')


def exc_sig(exc, prefix='exc'):
    """Signature of an exception escaping the code under test: type + innermost beanquery frame."""
    tb = traceback.extract_tb(exc.__traceback__)
    where = '?'
    for frame in reversed(tb):
        fn = frame.filename.replace('\\', '/')
        if '/beanquery/' in fn and '/verif/' not in fn:
            where = f"{fn.split('/beanquery/', 1)[1]}:{frame.name}"
            break
    return f'{prefix}:{type(exc).__name__}@{where}'


class Shard:
    def __init__(self, prop, tier, seed, index, n, known_sigs=()):
        self.prop = prop
        self.tier = tier
        self.seed = seed
        self.index = index
        self.n = n
        self.known_sigs = set(known_sigs)
        self.counters = collections.Counter()
        self.nontrivial = set()
        self.samples = []
        self.failures = {}
        self.known_hits = collections.Counter()
        self.extra = {}
        self.t0 = time.time()

    # ---- budgets -------------------------------------------------------------------
    def budget(self, quick, thorough):
        """Per-shard share of a total case budget."""
        # the thorough budgets named in the checks are the full depth (VERIF_THOROUGH_SCALE=1); by default a third of
        # it is run, which keeps the whole thorough tier within about two hours on 16 cores
        total = int(thorough * THOROUGH_SCALE) if self.tier == 'thorough' else quick
        return max(1, -(-total // self.n))

    def mine(self, items):
        """The slice of a deterministic work list owned by this shard."""
        return [x for i, x in enumerate(items) if i % self.n == self.index]

    # ---- bookkeeping ---------------------------------------------------------------
    def count(self, key, n=1):
        self.counters[key] += n

    def record(self, case_key, nontrivial, sample=None, n=1):
        """Register n evaluations of one case; case_key is any hashable identifying it."""
        self.counters['evaluations'] += n
        if nontrivial:
            h = case_key if isinstance(case_key, str) else hashlib.sha1(repr(case_key).encode()).hexdigest()[:16]
            if h not in self.nontrivial:
                self.nontrivial.add(h)
                if sample is not None and len(self.samples) < MAX_SAMPLES:
                    self.samples.append(sample)

    def fail(self, sig, detail, case, part):
        if sig in self.known_sigs:
            self.known_hits[sig] += 1
            return
        if sig not in self.failures:
            self.failures[sig] = {'sig': sig, 'detail': str(detail)[:2000], 'case': case, 'part': part}

    # ---- Hypothesis driver ---------------------------------------------------------
    def search(self, part, strategy, prop, quick, thorough, max_rounds=None, shrink_budget_s=None):
        """Run `prop(sh, case) -> iterable of (sig, detail)` over generated cases.

        Collect-then-shrink: a failure with a signature that is neither known nor already
        found makes the Hypothesis test fail for that signature only; it is shrunk,
        recorded, masked, and the search is repeated to look behind it."""
        import hypothesis
        import hypothesis.errors
        from hypothesis import HealthCheck, Phase, given, settings
        from . import jsonio

        n = self.budget(quick, thorough)
        if max_rounds is None:
            max_rounds = 2 if self.tier == 'quick' else 4
        if shrink_budget_s is None:
            shrink_budget_s = 40 if self.tier == 'quick' else 240
        masked = set(self.known_sigs)
        for rnd in range(max_rounds):
            state = {'target': None, 'case': None, 'detail': None, 'raised': set(), 't_first': None}

            def body(case):
                try:
                    fails = prop(self, case) or ()
                except Exception:  # noqa: BLE001
                    # an exception in the oracle itself (not in the code under test, whose calls are wrapped):
                    # the case is inconclusive; it is counted and reported, and too many of them fail the run (exit 2)
                    self.counters['harness_exceptions'] += 1
                    if 'harness_exception_sample' not in self.extra:
                        self.extra['harness_exception_sample'] = traceback.format_exc()[-1500:]
                    return
                for sig, detail in fails:
                    if sig in masked:
                        if sig in self.known_sigs:
                            self.known_hits[sig] += 1
                        continue
                    if state['target'] is None:
                        state['target'] = sig
                        state['t_first'] = time.time()
                    if sig != state['target']:
                        continue
                    h = jsonio.case_hash(case)
                    if time.time() - state['t_first'] > shrink_budget_s and h not in state['raised']:
                        # shrink budget used up: only cases that already failed keep failing, so
                        # the shrinker converges at once and the final replay still fails.
                        return
                    state['case'] = case
                    state['detail'] = detail
                    state['raised'].add(h)
                    raise Violation(sig)

            test = settings(max_examples=n, database=None,
                            phases=(Phase.explicit, Phase.reuse, Phase.generate, Phase.target, Phase.shrink), deadline=None, derandomize=False,
                            report_multiple_bugs=False, print_blob=False,
                            suppress_health_check=list(HealthCheck))(given(strategy)(body))
            test = hypothesis.seed(derive_seed(self.seed, self.index, self.prop, part, rnd))(test)
            try:
                test()
            except Violation:
                self.fail(state['target'], state['detail'], state['case'], part)
                masked.add(state['target'])
                self.count(f'{part}.rounds_with_failure')
                continue
            except hypothesis.errors.Flaky:
                # the failure depends on what ran earlier in this process (state leaking between
                # executions): still a failure of the property; keep the last failing case
                if state['target'] is None:
                    raise
                self.fail(state['target'], '[history-dependent: failed after earlier cases in the same process] '
                          + str(state['detail']), state['case'], part)
                masked.add(state['target'])
                self.count(f'{part}.history_dependent_failure')
                continue
            except Exception:  # noqa: BLE001
                # an internal error of the test library while it was shrinking an observed failure (seen: ValueError in
                # its string shrinker): the failure stands, with the smallest failing case seen so far
                if state['target'] is None or state['case'] is None:
                    raise
                self.fail(state['target'], '[shrinking aborted by an error inside the test library] ' + str(state['detail']),
                          state['case'], part)
                masked.add(state['target'])
                self.count(f'{part}.shrink_aborted')
                continue
            break

    def summary(self):
        return {
            'index': self.index,
            'counters': dict(self.counters),
            'nontrivial': sorted(self.nontrivial),
            'samples': self.samples,
            'failures': self.failures,
            'known_hits': dict(self.known_hits),
            'extra': self.extra,
        }


# ------------------------------------------------------------------------------------

THOROUGH_SCALE = float(os.environ.get('VERIF_THOROUGH_SCALE', '0.33'))


def load_known(prop):
    path = os.path.join(ROOT, 'known_findings.json')
    if not os.path.exists(path):
        return []
    with open(path) as f:
        data = json.load(f)
    return [k for k in data.get('findings', []) if k.get('property') == prop]


def _run_shard(args):
    modname, prop, tier, seed, index, n, known = args
    try:
        mod = importlib.import_module(modname)
        sh = Shard(prop, tier, seed, index, n, known)
        mod.run(sh)
        return sh.summary()
    except BaseException:  # noqa: BLE001 - reported to the parent as a harness error
        return {'index': index, 'error': traceback.format_exc()}


def run_replay_file(mod, path):
    """Re-run one replay file without Hypothesis.  Returns list of (sig, detail)."""
    from . import jsonio
    with open(path) as f:
        doc = json.load(f)
    case = jsonio.dec(doc['case'])
    sh = Shard(mod.ID, 'quick', 0, 0, 1)
    prop = mod.PARTS[doc['part']]
    return list(prop(sh, case) or ()), doc


def main(prop, tier, seed, replay=None):
    from . import jsonio
    t0 = time.time()
    modname = f'checks.{prop.lower()}'
    mod = importlib.import_module(modname)
    assert mod.ID == prop

    if replay:
        fails, doc = run_replay_file(mod, replay)
        if fails:
            for sig, detail in fails:
                print(f'replay fails: {sig}: {str(detail)[:1500]}')
            print(f'VIOLATION property={prop} replay={replay}')
            return 1
        print(f'replay passes: {replay}')
        return 0

    known = load_known(prop)
    open_known = [k for k in known if k.get('status') == 'open']
    known_sigs = [k['sig'] for k in open_known]
    violations = []       # (sig, replay path)
    known_lines = []

    # 1. regression tier: committed replays (shrunk failures, fixed findings, known findings)
    regress_dir = os.path.join(ROOT, 'replays', 'regress', prop)
    regress_n = 0
    if os.path.isdir(regress_dir):
        for name in sorted(os.listdir(regress_dir)):
            if not name.endswith('.json'):
                continue
            path = os.path.join(regress_dir, name)
            rel = os.path.relpath(path, ROOT)
            fails, doc = run_replay_file(mod, path)
            regress_n += 1
            unknown = [(s, d) for s, d in fails if s not in known_sigs]
            for s, d in fails:
                if s in known_sigs:
                    k = next(k for k in open_known if k['sig'] == s)
                    line = f"KNOWN-FINDING: property={prop} {k['what']} [{s}]"
                    if line not in known_lines:
                        known_lines.append(line)
            if unknown:
                print(f'regression replay fails: {rel}: {unknown[0][0]}: {str(unknown[0][1])[:800]}')
                violations.append((unknown[0][0], rel))

    # 2. generated search, sharded
    n = NSHARDS
    args = [(modname, prop, tier, seed, i, n, known_sigs) for i in range(n)]
    if n == 1:
        results = [_run_shard(a) for a in args]
    else:
        ctx = multiprocessing.get_context('fork')
        limit = float(os.environ.get('VERIF_TIMEOUT_S') or (3600 if tier == 'quick' else 12 * 3600))
        with ctx.Pool(n) as pool:
            try:
                results = pool.map_async(_run_shard, args, chunksize=1).get(timeout=limit)
            except multiprocessing.TimeoutError:
                # a time budget hit means "inconclusive", never a violation
                print(f'HARNESS ERROR: no result within {limit:.0f} s (inconclusive)', file=sys.stderr)
                pool.terminate()
                return 2
    errors = [r for r in results if 'error' in r]
    if errors:
        for r in errors[:3]:
            print(f"HARNESS ERROR in shard {r['index']}:\n{r['error']}", file=sys.stderr)
        return 2

    counters = collections.Counter()
    nontrivial = set()
    samples = []
    failures = {}
    known_hits = collections.Counter()
    extra = {}
    for r in results:
        counters.update(r['counters'])
        nontrivial.update(r['nontrivial'])
        for s in r['samples']:
            if len(samples) < MAX_SAMPLES:
                samples.append(s)
        for sig, f in r['failures'].items():
            cur = failures.get(sig)
            if cur is None or len(jsonio.dumps(f['case'])) < len(jsonio.dumps(cur['case'])):
                failures[sig] = f
        known_hits.update(r['known_hits'])
        for k, v in r['extra'].items():
            if isinstance(v, (int, float)) and not isinstance(v, bool):
                extra[k] = extra.get(k, 0) + v
            elif isinstance(v, list):
                extra.setdefault(k, [])
                for x in v:
                    if x not in extra[k]:
                        extra[k].append(x)
            else:
                extra[k] = v

    outdir = os.path.join(ROOT, 'replays', 'out')
    os.makedirs(outdir, exist_ok=True)
    for sig, f in sorted(failures.items()):
        h = hashlib.sha1(sig.encode()).hexdigest()[:10]
        path = os.path.join(outdir, f'{prop}-{h}.json')
        with open(path, 'w') as fh:
            json.dump({'property': prop, 'sig': sig, 'detail': f['detail'], 'part': f['part'],
                       'seed': seed, 'tier': tier, 'case': jsonio.enc(f['case'])}, fh, indent=1, sort_keys=True)
        rel = os.path.relpath(path, ROOT)
        print(f"violation: {sig}: {f['detail'][:1200]}")
        violations.append((sig, rel))

    for sig, cnt in sorted(known_hits.items()):
        k = next(k for k in open_known if k['sig'] == sig)
        line = f"KNOWN-FINDING: property={prop} {k['what']} [{sig}]"
        if line not in known_lines:
            known_lines.append(line)
    for line in known_lines:
        print(line)

    wall = time.time() - t0
    coverage = {
        'evaluations': int(counters.get('evaluations', 0)) + regress_n,
        'distinct_nontrivial': len(nontrivial),
        'rule': mod.RULE,
        'samples': samples,
        'classes': {k: v for k, v in sorted(counters.items()) if k != 'evaluations'},
        'regression_replays': regress_n,
        'excluded_known': dict(known_hits),
        'shards': n,
    }
    coverage.update(extra)
    evidence = {
        'property_id': prop,
        'tier': tier,
        'seed': seed,
        'level': 'exploration',
        'coverage': coverage,
        'assumptions': list(getattr(mod, 'ASSUMPTIONS', [])),
        'wall_s': round(wall, 2),
        'violations': len(violations),
    }
    evdir = os.environ.get('VERIF_EVIDENCE_DIR') or os.path.join(ROOT, 'evidence')
    os.makedirs(evdir, exist_ok=True)
    with open(os.path.join(evdir, f'{prop}.json'), 'w') as fh:
        json.dump(evidence, fh, indent=1, sort_keys=True, default=str)

    print(f"{prop} {tier} seed={seed}: evaluations={coverage['evaluations']} "
          f"distinct_nontrivial={coverage['distinct_nontrivial']} violations={len(violations)} "
          f"known={len(known_lines)} wall={wall:.1f}s")
    if violations:
        for sig, rel in violations:
            print(f'VIOLATION property={prop} replay={rel}')
        return 1
    nharness = counters.get('harness_exceptions', 0)
    if nharness:
        print(f'warning: {nharness} case(s) raised inside the oracle and were discarded:\n{extra.get("harness_exception_sample")}', file=sys.stderr)
        if nharness > max(3, coverage['evaluations'] // 100):
            print('HARNESS ERROR: too many oracle exceptions', file=sys.stderr)
            return 2
    if coverage['distinct_nontrivial'] < 2:
        print('HARNESS ERROR: fewer than 2 non-trivial cases generated', file=sys.stderr)
        return 2
    return 0
