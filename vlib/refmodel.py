"""Reference semantics for BQL over plain Python tables, written from the property statements
(C01-C03, C07-C09, C15) and the function docstrings; independent of beanquery's evaluator.

A table is {'cols': [(name, tname)], 'rows': [tuple, ...]}.  Expressions are compiled to
closures over a row dict; NULL is None."""
import collections
import datetime
import decimal
import re
from decimal import Decimal

from . import bql


STATS = collections.Counter()     # per-case instrumentation (NULL operands seen, ...)


class Undefined(Exception):
    """The oracle itself is undefined on this case (overflow, decimal signal, date range)."""


_UNDEF = (OverflowError, decimal.DecimalException)


def truthy(v):
    return v is not None and bool(v)


# ------------------------------------------------------------------ scalar functions

def f_str(x):
    if x is True:
        return 'TRUE'
    if x is False:
        return 'FALSE'
    return str(x)


def f_int(x):
    try:
        return int(x)
    except (ValueError, TypeError, OverflowError):
        return None


def f_decimal(x):
    try:
        return Decimal(x)
    except (ValueError, TypeError, decimal.InvalidOperation):
        return None


def f_date(*args):
    if len(args) == 3:
        try:
            return datetime.date(*args)
        except (ValueError, OverflowError):
            return None
    x, = args
    if isinstance(x, datetime.date):
        return x
    if isinstance(x, str):
        m = re.fullmatch(r'(\d{4})-(\d{1,2})-(\d{1,2})', x)
        if m:
            try:
                return datetime.date(int(m.group(1)), int(m.group(2)), int(m.group(3)))
            except ValueError:
                return None
    return None


def f_round(x, n=0):
    return round(x, n)


SCALAR = {
    'abs': abs,
    'neg': lambda x: -x,
    'length': len,
    'upper': str.upper,
    'lower': str.lower,
    'str': f_str,
    'bool': bool,
    'int': f_int,
    'decimal': f_decimal,
    'date': f_date,
    'year': lambda d: d.year,
    'month': lambda d: d.month,
    'day': lambda d: d.day,
    'quarter': lambda d: '%04d-Q%d' % (d.year, (d.month + 2) // 3),
    'weekday': lambda d: ('Mon', 'Tue', 'Wed', 'Thu', 'Fri', 'Sat', 'Sun')[d.weekday()],
    'yearmonth': lambda d: d.replace(day=1),
    'round': f_round,
    'safediv': lambda x, y: Decimal(0) if y == 0 else x / y,
    'substr': lambda s, a, b: s[a:b],
    'date_add': lambda d, n: d + datetime.timedelta(days=n),
    'date_diff': lambda a, b: (a - b).days,
}

CASTS = {'decimal': f_decimal, 'str': f_str, 'date': f_date, 'int': f_int, 'bool': bool}


def _cast(fn, tname):
    cast = CASTS[tname]

    def run(row):
        v = fn(row)
        return None if v is None else cast(v)
    return run


# ------------------------------------------------------------------ expression compiler

class Ctx:
    def __init__(self, tables, default=None, aggvalues=None):
        self.tables = tables
        self.default = default
        self.aggvalues = aggvalues      # id(node) -> value while evaluating per-group expressions


def comp(e, env, ctx):
    """Compile expression e to (closure(row_dict) -> value, type name)."""
    k = e[0]
    if k == 'col':
        name = e[1]
        if name not in env:
            raise bql.IllTyped(f'unknown column {name}')
        return (lambda row: row[name]), env[name]
    if k == 'const':
        v = e[2]
        return (lambda row: v), e[1]
    if k == 'list':
        fns = [comp(x, env, ctx)[0] for x in e[1]]
        return (lambda row: [f(row) for f in fns]), 'list'
    if k == 'subq':
        cache = []

        def sub(row):
            if not cache:
                names, types, rows = run_select(e[1], ctx.tables, ctx.default)
                if len(names) != 1:
                    raise bql.IllTyped('subquery has too many columns')
                vals = [r[0] for r in rows]
                cache.append(vals if vals else None)
            return cache[0]
        return sub, 'list'
    if k == 'neg':
        f, t = comp(e[1], env, ctx)
        if t not in bql.NUM:
            raise bql.IllTyped(f'neg {t}')

        def neg(row):
            v = f(row)
            return None if v is None else -v
        return neg, t
    if k == 'not':
        f, _ = comp(e[1], env, ctx)
        return (lambda row: not f(row)), 'bool'       # NOT NULL is TRUE
    if k == 'isnull':
        f, _ = comp(e[1], env, ctx)
        return (lambda row: f(row) is None), 'bool'
    if k == 'isnotnull':
        f, _ = comp(e[1], env, ctx)
        return (lambda row: f(row) is not None), 'bool'
    if k in bql.ARITH:
        (lf, lt), (rf, rt) = comp(e[1], env, ctx), comp(e[2], env, ctx)
        lt2, rt2 = bql.implicit(lt, rt)
        if lt2 != lt:
            lf = _cast(lf, lt2)
        if rt2 != rt:
            rf = _cast(rf, rt2)
        t = bql.arith_type(k, lt2, rt2)
        if t is None:
            raise bql.IllTyped(f'{k} {lt} {rt}')
        return _arith(k, lf, rf, lt2, rt2), t
    if k in bql.CMP:
        (lf, lt), (rf, rt) = comp(e[1], env, ctx), comp(e[2], env, ctx)
        if k in ('in', 'notin'):
            if not bql.cmp_ok(k, lt, rt):
                raise bql.IllTyped(f'{k} {lt} {rt}')
            want = k == 'in'

            def member(row):
                x = lf(row)
                if x is None:
                    return None
                xs = rf(row)
                if xs is None:
                    return None
                return (x in xs) == want
            return member, 'bool'
        lt2, rt2 = bql.implicit(lt, rt)
        if lt2 != lt:
            lf = _cast(lf, lt2)
        if rt2 != rt:
            rf = _cast(rf, rt2)
        if not bql.cmp_ok(k, lt2, rt2):
            raise bql.IllTyped(f'{k} {lt} {rt}')
        return _compare(k, lf, rf), 'bool'
    if k == 'between':
        (f, t), (lo, lot), (hi, hit) = (comp(x, env, ctx) for x in e[1:4])
        ts = [t, lot, hit]
        if not (all(x in bql.NUM for x in ts) or (t in ('date', 'str') and ts.count(t) == 3)):
            raise bql.IllTyped(f'between {ts}')

        def between(row):
            v, a, b = f(row), lo(row), hi(row)
            if v is None or a is None or b is None:
                STATS['null_operand'] += 1
                return None
            return a <= v <= b
        return between, 'bool'
    if k == 'and':
        fs = [comp(a, env, ctx)[0] for a in e[1]]

        def and_(row):
            for f in fs:
                v = f(row)
                if v is None:
                    STATS['null_operand'] += 1
                    return None
                if not v:
                    return False
            return True
        return and_, 'bool'
    if k == 'or':
        fs = [comp(a, env, ctx)[0] for a in e[1]]

        def or_(row):
            vs = [f(row) for f in fs]
            if any(v is not None and v for v in vs):
                return True
            if any(v is None for v in vs):
                STATS['null_operand'] += 1
                return None
            return False
        return or_, 'bool'
    if k == 'fn':
        return _function(e, env, ctx)
    raise bql.IllTyped(f'cannot evaluate {k}')


def _arith(k, lf, rf, lt, rt):
    def run(row):
        a = lf(row)
        if a is None:
            STATS['null_operand'] += 1
            return None
        b = rf(row)
        if b is None:
            STATS['null_operand'] += 1
            return None
        try:
            if k == 'add':
                if lt == 'date':
                    return a + datetime.timedelta(days=b)
                if rt == 'date':
                    return b + datetime.timedelta(days=a)
                return a + b
            if k == 'sub':
                if lt == 'date' and rt == 'date':
                    return (a - b).days
                if lt == 'date':
                    return a - datetime.timedelta(days=b)
                return a - b
            if k == 'mul':
                return a * b
            if k == 'div':
                if b == 0:
                    return None
                if lt == 'int' and rt == 'int':
                    return Decimal(a) / Decimal(b)
                return a / b
            if k == 'mod':
                if b == 0:
                    return None
                return a % b
        except _UNDEF as exc:
            raise Undefined(repr(exc)) from None
        raise AssertionError(k)
    return run


def _compare(k, lf, rf):
    def run(row):
        a = lf(row)
        b = rf(row)
        if a is None or b is None:
            STATS['null_operand'] += 1
            return None
        if k == 'eq':
            return a == b
        if k == 'ne':
            return a != b
        if k == 'lt':
            return a < b
        if k == 'le':
            return a <= b
        if k == 'gt':
            return a > b
        if k == 'ge':
            return a >= b
        try:
            found = re.search(b, a, re.IGNORECASE) is not None
        except re.error as exc:
            raise Undefined(f'invalid regular expression {b!r}: {exc}') from None
        return found if k == 'match' else not found
    return run


def _function(e, env, ctx):
    name, args = e[1], e[2]
    if name in bql.AGGREGATES:
        if ctx.aggvalues is None:
            raise bql.IllTyped('aggregate in row context')
        t = bql.infer(e, env)
        key = id(e)
        return (lambda row: ctx.aggvalues[key]), t
    cs = [comp(a, env, ctx) for a in args]
    fs = [c[0] for c in cs]
    ts = [c[1] for c in cs]
    if name == 'coalesce':
        if not ts or any(t != ts[0] for t in ts):
            raise bql.IllTyped(f'coalesce {ts}')

        def coalesce(row):
            for f in fs:
                v = f(row)
                if v is not None:
                    return v
            return None
        return coalesce, ts[0]
    t = bql.func_type(name, ts)
    if t is None:
        raise bql.IllTyped(f'{name}{ts}')
    impl = SCALAR[name]

    def call(row):
        vs = [f(row) for f in fs]
        if any(v is None for v in vs):
            STATS['null_operand'] += 1
            return None
        try:
            return impl(*vs)
        except _UNDEF as exc:
            raise Undefined(repr(exc)) from None
    return call, t


# ------------------------------------------------------------------ aggregates

def fold(name, values, tname, star=False):
    """Fold of aggregate `name` over the values of its argument on the group's rows, in order."""
    if name == 'count':
        return len(values) if star else sum(1 for v in values if v is not None)
    nn = [v for v in values if v is not None]
    if name == 'sum':
        total = 0 if tname == 'int' else Decimal(0)
        try:
            for v in nn:
                total = total + v
        except _UNDEF as exc:
            raise Undefined(repr(exc)) from None
        return total
    if name == 'min':
        return min(nn) if nn else None
    if name == 'max':
        return max(nn) if nn else None
    if name == 'first':
        return nn[0] if nn else None
    if name == 'last':
        return values[-1] if values else None
    raise ValueError(name)


def aggregate_nodes(e):
    """Aggregate calls in e that are not nested inside another aggregate."""
    if e[0] == 'fn' and e[1] in bql.AGGREGATES:
        return [e]
    out = []
    for c in bql.children(e):
        out.extend(aggregate_nodes(c))
    return out


# ------------------------------------------------------------------ SELECT

class SortKey:
    """NULL orders before every value."""
    __slots__ = ('v',)

    def __init__(self, v):
        self.v = v

    def __lt__(self, other):
        if self.v is None:
            return other.v is not None
        if other.v is None:
            return False
        return self.v < other.v


def source(sel, tables, default):
    """-> (cols [(name, tname)], rows [dict])."""
    f = sel.get('from')
    if f is None or f[0] == 'expr':
        t = tables[default]
    elif f[0] == 'table':
        t = tables[f[1]]
    else:
        names, types, rows = run_select(f[1], tables, default)
        cols = []
        seen = {}
        for i, (n, ty) in enumerate(zip(names, types)):
            seen[n] = i
        # a later output with the same name shadows an earlier one
        cols = [(n, types[i]) for n, i in seen.items()]
        return cols, [{n: r[i] for n, i in seen.items()} for r in rows]
    cols = list(t['cols'])
    names = [n for n, _ in cols]
    return cols, [dict(zip(names, r)) for r in t['rows']]


def target_name(e, alias):
    if alias is not None:
        return alias
    if e[0] == 'col':
        return e[1]
    return None     # named by its source text: not referable by name


def run_select(sel, tables, default='postings', wildcard=None):
    """-> (names, type names, rows).  names[i] is None for a target named by its text."""
    cols, rows = source(sel, tables, default)
    env = dict(cols)
    ctx = Ctx(tables, default)
    f = sel.get('from')
    conds = []
    if f is not None and f[0] == 'expr' and f[1] is not None:
        conds.append(comp(f[1], env, ctx)[0])
    if sel.get('where') is not None:
        conds.append(comp(sel['where'], env, ctx)[0])
    for c in conds:
        rows = [r for r in rows if truthy(c(r))]

    targets = sel['targets']
    if targets == '*':
        wl = wildcard if wildcard is not None else [n for n, _ in cols]
        targets = [(['col', n], None) for n in wl]
    names = [target_name(e, a) for e, a in targets]
    by_name = {n: i for i, n in enumerate(names) if n is not None}

    def resolve(item):
        """GROUP BY / ORDER BY item -> ('target', index) | ('expr', e)."""
        if isinstance(item, int):
            return ('target', item - 1)
        if item[0] == 'col' and item[1] in by_name:
            return ('target', by_name[item[1]])
        return ('expr', item)

    aggregate = sel.get('group_by') is not None or any(bql.is_aggregate(e) for e, _ in targets)
    order = [(resolve(k), d == 'DESC') for k, d in (sel.get('order_by') or [])]

    if not aggregate:
        tfs = [comp(e, env, ctx) for e, _ in targets]
        types = [t for _, t in tfs]
        ofs = [tfs[r[1]][0] if r[0] == 'target' else comp(r[1], env, ctx)[0] for r, _ in order]
        out = [([f(r) for f, _ in tfs], [f(r) for f in ofs]) for r in rows]
    else:
        actx = Ctx(tables, default, aggvalues={})
        if sel.get('group_by') is not None:
            keyspecs = [resolve(k) for k in sel['group_by']]
        else:
            keyspecs = [('target', i) for i, (e, _) in enumerate(targets) if not bql.is_aggregate(e)]
        keyexprs = [targets[k[1]][0] if k[0] == 'target' else k[1] for k in keyspecs]
        kfs = [comp(e, env, ctx)[0] for e in keyexprs]
        groups = {}
        for r in rows:
            groups.setdefault(tuple(f(r) for f in kfs), []).append(r)
        tfs = [comp(e, env, actx) for e, _ in targets]
        types = [t for _, t in tfs]
        hf = comp(sel['having'], env, actx)[0] if sel.get('having') is not None else None
        ofs = [tfs[r[1]][0] if r[0] == 'target' else comp(r[1], env, actx)[0] for r, _ in order]
        exprs = [e for e, _ in targets] + ([sel['having']] if hf else []) + [r[1] for r, _ in order if r[0] == 'expr']
        aggs = [a for e in exprs for a in aggregate_nodes(e)]
        aggfs = []
        for a in aggs:
            star = bool(a[2]) and a[2][0][0] == 'star'
            if star:
                aggfs.append((a, None, 'int', True))
            else:
                af, at = comp(a[2][0], env, ctx)
                aggfs.append((a, af, at, False))
        out = []
        for key, grows in groups.items():
            actx.aggvalues.clear()
            for a, af, at, star in aggfs:
                vals = [None] * len(grows) if star else [af(r) for r in grows]
                actx.aggvalues[id(a)] = fold(a[1], vals, at, star)
            first = grows[0]
            if hf is not None and not truthy(hf(first)):
                continue
            out.append(([f(first) for f, _ in tfs], [f(first) for f in ofs]))

    # ORDER BY: one stable pass per key, least significant first
    for i in reversed(range(len(order))):
        desc = order[i][1]
        out.sort(key=lambda pair, i=i: SortKey(pair[1][i]), reverse=desc)
    result = [tuple(vis) for vis, _ in out]
    if sel.get('distinct'):
        seen = set()
        uniq = []
        for r in result:
            if r not in seen:
                seen.add(r)
                uniq.append(r)
        result = uniq
    if sel.get('limit') is not None:
        result = result[:sel['limit']]
    return names, types, result


def pivot(names, types, rows, c1, c2):
    """Reference PIVOT BY (C15) of an un-pivoted result on column indexes c1, c2."""
    other = [i for i in range(len(names)) if i not in (c1, c2)]
    keys2 = sorted({r[c2] for r in rows})
    keys1 = sorted({r[c1] for r in rows}, key=SortKey)
    out_names = [f'{names[c1]}/{names[c2]}']
    out_types = [types[c1]]
    for k in keys2:
        for i in other:
            out_names.append(f'{k}/{names[i]}' if len(other) > 1 else f'{k}')
            out_types.append(types[i])
    cell = {(r[c1], r[c2]): r for r in rows}
    out = []
    for k1 in keys1:
        row = [k1]
        for k2 in keys2:
            r = cell.get((k1, k2))
            row.extend([None] * len(other) if r is None else [r[i] for i in other])
        out.append(tuple(row))
    return out_names, out_types, out


# ------------------------------------------------------------------ comparison helpers

def same_value(a, b):
    """Type-strict value equality: 1, Decimal(1) and True are three different results."""
    if a is None or b is None:
        return a is None and b is None
    if type(a) is not type(b):
        return False
    if isinstance(a, (list, tuple)):
        return len(a) == len(b) and all(same_value(x, y) for x, y in zip(a, b))
    return a == b


def same_rows(got, want):
    return len(got) == len(want) and all(
        len(g) == len(w) and all(same_value(x, y) for x, y in zip(g, w)) for g, w in zip(got, want))
