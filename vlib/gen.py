"""Hypothesis strategies: values, harness tables, typed expression trees and statements.
Everything is typed by construction (no assume/filter on well-typedness)."""
import datetime
from decimal import Decimal

from hypothesis import strategies as st

from . import bql

SCALARS = ['int', 'decimal', 'str', 'date', 'bool']
ALLTYPES = SCALARS + ['object']
D = Decimal

DATES = [datetime.date(2019, 12, 31), datetime.date(2020, 1, 1), datetime.date(2020, 2, 28),
         datetime.date(2020, 2, 29), datetime.date(2020, 3, 1), datetime.date(2020, 3, 31)]

VALUES = {
    'int': st.one_of(st.integers(-6, 6), st.integers(-6, 6), st.sampled_from([0, 1, -1, 2, 1000, -1000])),
    'decimal': st.one_of(
        st.builds(lambda m, e: D(m).scaleb(-e), st.integers(-6, 6), st.integers(0, 2)),
        st.builds(lambda m, e: D(m).scaleb(-e), st.integers(-999999, 999999), st.integers(0, 4)),
        st.sampled_from([D('0'), D('1'), D('1.0'), D('2.00'), D('-1'), D('0.5')])),
    'str': st.one_of(st.text(alphabet='abAB ', max_size=4), st.sampled_from(['', 'a', 'A', 'ab', 'b'])),
    'date': st.one_of(st.dates(datetime.date(2019, 12, 28), datetime.date(2020, 3, 3)), st.sampled_from(DATES)),
    'bool': st.booleans(),
}
VALUES['object'] = st.one_of(
    VALUES['int'], VALUES['decimal'], VALUES['str'], VALUES['date'], VALUES['bool'],
    st.sampled_from(['1', '2.5', 'x', '2020-01-05', '2020-1-5', ' 3 ', 'TRUE', '-4', '1e2']))


class Rnd:
    """Adapter giving bql.Style its random choices from a Hypothesis-managed Random."""

    def __init__(self, random):
        self.random = random

    def boolean(self, p):
        return self.random.random() < p

    def choice(self, seq):
        return seq[self.random.randrange(len(seq))]


@st.composite
def styles(draw, parens=0.15, case=False, space=True, comments=False, uplus=False, numforms=False):
    if draw(st.integers(0, 3)) == 0:
        return bql.CANON
    rnd = Rnd(draw(st.randoms(use_true_random=False)))
    return bql.Style(rnd, parens=parens, case=case, space=space, comments=comments, uplus=uplus,
                     numforms=numforms)


@st.composite
def tables(draw, name='t', min_cols=2, max_cols=6, max_rows=8, types=ALLTYPES, null_p=0.25, min_rows=0):
    """A harness table description {'name', 'cols', 'rows'}; always has a unique int column `rid`."""
    ncols = draw(st.integers(min_cols, max_cols))
    cols = [(f'c{i}', draw(st.sampled_from(types))) for i in range(ncols)]
    pools = []
    for _, t in cols:
        vals = draw(st.lists(VALUES[t], min_size=1, max_size=4))
        if draw(st.floats(0, 1)) < 0.8:
            vals.append(None)
        pools.append(vals)
    nrows = draw(st.sampled_from([n for n in (3, 5, 8, 2, 6, 1, 4, 7, 0) if min_rows <= n <= max_rows]))
    rows = [tuple([i] + [draw(st.sampled_from(p)) for p in pools]) for i in range(nrows)]
    return {'name': name, 'cols': [('rid', 'int')] + cols, 'rows': rows}


def literal(t):
    return VALUES[t].map(bql.const)


def posint(lo=0, hi=6):
    return st.integers(lo, hi).map(bql.const)


@st.composite
def exprs(draw, t, cols, depth, agg=False):
    """A well-typed non-aggregate expression of static type t over columns cols [(name, tname)]."""
    mine = [n for n, ty in cols if ty == t]
    if depth <= 0 or draw(st.integers(0, 3)) == 0:
        if mine and draw(st.integers(0, 2)) > 0:
            return ['col', draw(st.sampled_from(mine))]
        if t == 'object':
            if mine:
                return ['col', draw(st.sampled_from(mine))]
            return ['const', 'null', None]
        return draw(literal(t))
    d = depth - 1

    def sub(ty):
        return draw(exprs(ty, cols, d))

    def num():
        return draw(st.sampled_from(['int', 'decimal']))

    objcols = [n for n, ty in cols if ty == 'object']

    def maybe_obj(ty):
        # an untyped operand in place of a typed one (implicitly cast by the compiler)
        if objcols and ty in ('decimal', 'int', 'str', 'date') and draw(st.integers(0, 7)) == 0:
            return ['col', draw(st.sampled_from(objcols))]
        return None

    if t == 'int':
        k = draw(st.sampled_from(['add', 'sub', 'mul', 'mod', 'neg', 'datesub', 'length', 'datepart', 'coalesce',
                                  'int', 'round', 'date_diff']))
        if k in ('add', 'sub', 'mul', 'mod'):
            return [k, sub('int'), sub('int')]
        if k == 'neg':
            return ['neg', sub('int')]
        if k == 'datesub':
            o = maybe_obj('date')
            if o is not None:
                return ['sub', o, sub('date')] if draw(st.booleans()) else ['sub', sub('date'), o]
            return ['sub', sub('date'), sub('date')]
        if k == 'length':
            return ['fn', 'length', [sub('str')]]
        if k == 'datepart':
            return ['fn', draw(st.sampled_from(['year', 'month', 'day'])), [sub('date')]]
        if k == 'coalesce':
            return ['fn', 'coalesce', [sub('int') for _ in range(draw(st.integers(1, 3)))]]
        if k == 'int':
            return ['fn', 'int', [sub(draw(st.sampled_from(['int', 'bool', 'decimal', 'str', 'object'])))]]
        if k == 'round':
            return ['fn', 'round', [sub('int')] + ([sub('int')] if draw(st.booleans()) else [])]
        return ['fn', 'date_diff', [sub('date'), sub('date')]]
    if t == 'decimal':
        k = draw(st.sampled_from(['add', 'sub', 'mul', 'div', 'div', 'mod', 'neg', 'abs', 'negf', 'coalesce', 'decimal',
                                  'round', 'safediv']))
        if k in ('add', 'sub', 'mul', 'mod'):
            a, b = num(), num()
            if a == 'int' and b == 'int':
                a = 'decimal'
            o = maybe_obj(a)
            if o is not None:
                return [k, o, sub(b)] if draw(st.booleans()) else [k, sub(b), o]
            return [k, sub(a), sub(b)]
        if k == 'div':
            a, b = num(), num()
            o = maybe_obj('decimal')
            if o is not None:
                return [k, o, sub(b)] if draw(st.booleans()) else [k, sub(b), o]
            return ['div', sub(a), sub(b)]
        if k == 'neg':
            return ['neg', sub('decimal')]
        if k == 'abs':
            return ['fn', 'abs', [sub('decimal')]]
        if k == 'negf':
            return ['fn', 'neg', [sub('decimal')]]
        if k == 'coalesce':
            return ['fn', 'coalesce', [sub('decimal') for _ in range(draw(st.integers(1, 3)))]]
        if k == 'decimal':
            return ['fn', 'decimal', [sub(draw(st.sampled_from(['int', 'bool', 'decimal', 'str', 'object'])))]]
        if k == 'round':
            return ['fn', 'round', [sub('decimal')] + ([draw(posint(0, 3))] if draw(st.booleans()) else [])]
        return ['fn', 'safediv', [sub('decimal'), sub(num())]]
    if t == 'str':
        k = draw(st.sampled_from(['upper', 'lower', 'str', 'coalesce', 'substr', 'quarter', 'weekday']))
        if k == 'str':
            return ['fn', 'str', [sub(draw(st.sampled_from(ALLTYPES)))]]
        if k == 'coalesce':
            return ['fn', 'coalesce', [sub('str') for _ in range(draw(st.integers(1, 3)))]]
        if k == 'substr':
            return ['fn', 'substr', [sub('str'), draw(literal('int')), draw(literal('int'))]]
        if k in ('quarter', 'weekday'):
            return ['fn', k, [sub('date')]]
        return ['fn', k, [sub('str')]]
    if t == 'date':
        k = draw(st.sampled_from(['addi', 'iadd', 'subi', 'coalesce', 'date', 'yearmonth', 'date_add', 'ymd']))
        if k == 'addi':
            return ['add', sub('date'), sub('int')]
        if k == 'iadd':
            return ['add', sub('int'), sub('date')]
        if k == 'subi':
            return ['sub', sub('date'), sub('int')]
        if k == 'coalesce':
            return ['fn', 'coalesce', [sub('date') for _ in range(draw(st.integers(1, 3)))]]
        if k == 'date':
            return ['fn', 'date', [sub(draw(st.sampled_from(['date', 'str', 'object'])))]]
        if k == 'yearmonth':
            return ['fn', 'yearmonth', [sub('date')]]
        if k == 'date_add':
            return ['fn', 'date_add', [sub('date'), sub('int')]]
        return ['fn', 'date', [draw(st.sampled_from([bql.const(2020), bql.const(2019), sub('int')])),
                               draw(st.sampled_from([bql.const(2), bql.const(12), sub('int')])),
                               draw(st.sampled_from([bql.const(29), bql.const(30), sub('int')]))]]
    if t == 'bool':
        k = draw(st.sampled_from(['cmp', 'cmp', 'cmp', 'and', 'or', 'not', 'isnull', 'isnotnull', 'between', 'in',
                                  'match', 'bool', 'coalesce']))
        if k == 'cmp':
            op = draw(st.sampled_from(['eq', 'ne', 'lt', 'le', 'gt', 'ge']))
            kind = draw(st.sampled_from(['num', 'num', 'str', 'date']))
            if kind == 'num':
                a, b = num(), num()
            else:
                a = b = kind
            o = maybe_obj(a)
            if o is not None:
                return [op, o, sub(b)] if draw(st.booleans()) else [op, sub(b), o]
            return [op, sub(a), sub(b)]
        if k in ('and', 'or'):
            return [k, [sub('bool') for _ in range(draw(st.integers(2, 3)))]]
        if k == 'not':
            return ['not', sub('bool')]
        if k in ('isnull', 'isnotnull'):
            return [k, sub(draw(st.sampled_from(ALLTYPES)))]
        if k == 'between':
            kind = draw(st.sampled_from(['num', 'num', 'str', 'date']))
            if kind == 'num':
                return ['between', sub(num()), sub(num()), sub(num())]
            return ['between', sub(kind), sub(kind), sub(kind)]
        if k == 'in':
            ty = draw(st.sampled_from(['int', 'str', 'date', 'decimal']))
            items = draw(st.lists(VALUES[ty].filter(lambda v: not isinstance(v, (int, D)) or (v >= 0 and not (isinstance(v, D) and v.is_signed()))),
                                  min_size=1, max_size=3))
            return [draw(st.sampled_from(['in', 'notin'])), sub(ty), ['list', [bql.const(v) for v in items]]]
        if k == 'match':
            return [draw(st.sampled_from(['match', 'notmatch'])), sub('str'),
                    draw(literal('str')) if draw(st.booleans()) else sub('str')]
        if k == 'bool':
            return ['fn', 'bool', [sub(draw(st.sampled_from(ALLTYPES)))]]
        return ['fn', 'coalesce', [sub('bool') for _ in range(draw(st.integers(1, 3)))]]
    if t == 'object':
        if len(mine) >= 1 and draw(st.booleans()):
            return ['fn', 'coalesce', [sub('object') for _ in range(draw(st.integers(1, 2)))]]
        return sub('object')
    raise AssertionError(t)


@st.composite
def targets(draw, cols, min_n=1, max_n=4, depth=3, types=SCALARS, alias_p=0.3):
    n = draw(st.integers(min_n, max_n))
    out = []
    for i in range(n):
        t = draw(st.sampled_from(types))
        e = draw(exprs(t, cols, draw(st.integers(0, depth))))
        alias = f'x{i}' if draw(st.floats(0, 1)) < alias_p else None
        out.append((e, alias))
    return out
