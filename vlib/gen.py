"""Hypothesis strategies: values, harness tables, typed expression trees and statements.
Everything is typed by construction (no assume/filter on well-typedness)."""
import datetime
from decimal import Decimal

from hypothesis import strategies as st

from . import bql

SCALARS = ['int', 'decimal', 'str', 'date', 'bool']
ALLTYPES = SCALARS + ['object']
D = Decimal

DATES = [datetime.date(2019, 12, 31), datetime.date(2020, 1, 1), datetime.date(2020, 2, 28),
         datetime.date(2020, 2, 29), datetime.date(2020, 3, 1), datetime.date(2020, 3, 31)]

VALUES = {
    'int': st.one_of(st.integers(-6, 6), st.integers(-6, 6), st.sampled_from([0, 1, -1, 2, 1000, -1000])),
    'decimal': st.one_of(
        st.builds(lambda m, e: D(m).scaleb(-e), st.integers(-6, 6), st.integers(0, 2)),
        st.builds(lambda m, e: D(m).scaleb(-e), st.integers(-999999, 999999), st.integers(0, 4)),
        st.sampled_from([D('0'), D('1'), D('1.0'), D('2.00'), D('-1'), D('0.5')])),
    'str': st.one_of(st.text(alphabet='abAB ', max_size=4), st.sampled_from(['', 'a', 'A', 'ab', 'b'])),
    'date': st.one_of(st.dates(datetime.date(2019, 12, 28), datetime.date(2020, 3, 3)), st.sampled_from(DATES)),
    'bool': st.booleans(),
}
VALUES['object'] = st.one_of(
    VALUES['int'], VALUES['decimal'], VALUES['str'], VALUES['date'], VALUES['bool'],
    st.sampled_from(['1', '2.5', 'x', '2020-01-05', '2020-1-5', ' 3 ', 'TRUE', '-4', '1e2']))


class Rnd:
    """Adapter giving bql.Style its random choices from a Hypothesis-managed Random."""

    def __init__(self, random):
        self.random = random

    def boolean(self, p):
        return self.random.random() < p

    def choice(self, seq):
        return seq[self.random.randrange(len(seq))]


@st.composite
def styles(draw, parens=0.15, case=False, space=True, comments=False, uplus=False, numforms=False):
    if draw(st.integers(0, 3)) == 0:
        return bql.CANON
    rnd = Rnd(draw(st.randoms(use_true_random=False)))
    return bql.Style(rnd, parens=parens, case=case, space=space, comments=comments, uplus=uplus,
                     numforms=numforms)


@st.composite
def tables(draw, name='t', min_cols=2, max_cols=6, max_rows=8, types=ALLTYPES, null_p=0.25, min_rows=0):
    """A harness table description {'name', 'cols', 'rows'}; always has a unique int column `rid`."""
    ncols = draw(st.integers(min_cols, max_cols))
    cols = [(f'c{i}', draw(st.sampled_from(types))) for i in range(ncols)]
    pools = []
    for _, t in cols:
        vals = draw(st.lists(VALUES[t], min_size=1, max_size=4))
        if draw(st.floats(0, 1)) < 0.8:
            vals.append(None)
        pools.append(vals)
    nrows = draw(st.sampled_from([n for n in (3, 5, 8, 2, 6, 1, 4, 7, 0) if min_rows <= n <= max_rows]))
    rows = [tuple([i] + [draw(st.sampled_from(p)) for p in pools]) for i in range(nrows)]
    return {'name': name, 'cols': [('rid', 'int')] + cols, 'rows': rows}


def literal(t):
    return VALUES[t].map(bql.const)


def posint(lo=0, hi=6):
    return st.integers(lo, hi).map(bql.const)


@st.composite
def exprs(draw, t, cols, depth, agg=False):
    """A well-typed non-aggregate expression of static type t over columns cols [(name, tname)]."""
    mine = [n for n, ty in cols if ty == t]
    if depth <= 0 or draw(st.integers(0, 3)) == 0:
        if mine and draw(st.integers(0, 2)) > 0:
            return ['col', draw(st.sampled_from(mine))]
        if t == 'object':
            if mine:
                return ['col', draw(st.sampled_from(mine))]
            return ['const', 'null', None]
        return draw(literal(t))
    d = depth - 1

    def sub(ty):
        return draw(exprs(ty, cols, d))

    def num():
        return draw(st.sampled_from(['int', 'decimal']))

    objcols = [n for n, ty in cols if ty == 'object']

    def maybe_obj(ty):
        # an untyped operand in place of a typed one (implicitly cast by the compiler)
        if objcols and ty in ('decimal', 'int', 'str', 'date') and draw(st.integers(0, 7)) == 0:
            return ['col', draw(st.sampled_from(objcols))]
        return None

    if t == 'int':
        k = draw(st.sampled_from(['add', 'sub', 'mul', 'mod', 'neg', 'datesub', 'length', 'datepart', 'coalesce',
                                  'int', 'round', 'date_diff']))
        if k in ('add', 'sub', 'mul', 'mod'):
            return [k, sub('int'), sub('int')]
        if k == 'neg':
            return ['neg', sub('int')]
        if k == 'datesub':
            o = maybe_obj('date')
            if o is not None:
                return ['sub', o, sub('date')] if draw(st.booleans()) else ['sub', sub('date'), o]
            return ['sub', sub('date'), sub('date')]
        if k == 'length':
            return ['fn', 'length', [sub('str')]]
        if k == 'datepart':
            return ['fn', draw(st.sampled_from(['year', 'month', 'day'])), [sub('date')]]
        if k == 'coalesce':
            return ['fn', 'coalesce', [sub('int') for _ in range(draw(st.integers(1, 3)))]]
        if k == 'int':
            return ['fn', 'int', [sub(draw(st.sampled_from(['int', 'bool', 'decimal', 'str', 'object'])))]]
        if k == 'round':
            return ['fn', 'round', [sub('int')] + ([sub('int')] if draw(st.booleans()) else [])]
        return ['fn', 'date_diff', [sub('date'), sub('date')]]
    if t == 'decimal':
        k = draw(st.sampled_from(['add', 'sub', 'mul', 'div', 'div', 'mod', 'neg', 'abs', 'negf', 'coalesce', 'decimal',
                                  'round', 'safediv']))
        if k in ('add', 'sub', 'mul', 'mod'):
            a, b = num(), num()
            if a == 'int' and b == 'int':
                a = 'decimal'
            o = maybe_obj(a)
            if o is not None:
                return [k, o, sub(b)] if draw(st.booleans()) else [k, sub(b), o]
            return [k, sub(a), sub(b)]
        if k == 'div':
            a, b = num(), num()
            o = maybe_obj('decimal')
            if o is not None:
                return [k, o, sub(b)] if draw(st.booleans()) else [k, sub(b), o]
            return ['div', sub(a), sub(b)]
        if k == 'neg':
            return ['neg', sub('decimal')]
        if k == 'abs':
            return ['fn', 'abs', [sub('decimal')]]
        if k == 'negf':
            return ['fn', 'neg', [sub('decimal')]]
        if k == 'coalesce':
            return ['fn', 'coalesce', [sub('decimal') for _ in range(draw(st.integers(1, 3)))]]
        if k == 'decimal':
            return ['fn', 'decimal', [sub(draw(st.sampled_from(['int', 'bool', 'decimal', 'str', 'object'])))]]
        if k == 'round':
            return ['fn', 'round', [sub('decimal')] + ([draw(posint(0, 3))] if draw(st.booleans()) else [])]
        return ['fn', 'safediv', [sub('decimal'), sub(num())]]
    if t == 'str':
        k = draw(st.sampled_from(['upper', 'lower', 'str', 'coalesce', 'substr', 'quarter', 'weekday']))
        if k == 'str':
            return ['fn', 'str', [sub(draw(st.sampled_from(ALLTYPES)))]]
        if k == 'coalesce':
            return ['fn', 'coalesce', [sub('str') for _ in range(draw(st.integers(1, 3)))]]
        if k == 'substr':
            return ['fn', 'substr', [sub('str'), draw(literal('int')), draw(literal('int'))]]
        if k in ('quarter', 'weekday'):
            return ['fn', k, [sub('date')]]
        return ['fn', k, [sub('str')]]
    if t == 'date':
        k = draw(st.sampled_from(['addi', 'iadd', 'subi', 'coalesce', 'date', 'yearmonth', 'date_add', 'ymd']))
        if k == 'addi':
            return ['add', sub('date'), sub('int')]
        if k == 'iadd':
            return ['add', sub('int'), sub('date')]
        if k == 'subi':
            return ['sub', sub('date'), sub('int')]
        if k == 'coalesce':
            return ['fn', 'coalesce', [sub('date') for _ in range(draw(st.integers(1, 3)))]]
        if k == 'date':
            return ['fn', 'date', [sub(draw(st.sampled_from(['date', 'str', 'object'])))]]
        if k == 'yearmonth':
            return ['fn', 'yearmonth', [sub('date')]]
        if k == 'date_add':
            return ['fn', 'date_add', [sub('date'), sub('int')]]
        return ['fn', 'date', [draw(st.sampled_from([bql.const(2020), bql.const(2019), sub('int')])),
                               draw(st.sampled_from([bql.const(2), bql.const(12), sub('int')])),
                               draw(st.sampled_from([bql.const(29), bql.const(30), sub('int')]))]]
    if t == 'bool':
        k = draw(st.sampled_from(['cmp', 'cmp', 'cmp', 'and', 'or', 'not', 'isnull', 'isnotnull', 'between', 'in',
                                  'match', 'bool', 'coalesce']))
        if k == 'cmp':
            op = draw(st.sampled_from(['eq', 'ne', 'lt', 'le', 'gt', 'ge']))
            kind = draw(st.sampled_from(['num', 'num', 'str', 'date']))
            if kind == 'num':
                a, b = num(), num()
            else:
                a = b = kind
            o = maybe_obj(a)
            if o is not None:
                return [op, o, sub(b)] if draw(st.booleans()) else [op, sub(b), o]
            return [op, sub(a), sub(b)]
        if k in ('and', 'or'):
            return [k, [sub('bool') for _ in range(draw(st.integers(2, 3)))]]
        if k == 'not':
            return ['not', sub('bool')]
        if k in ('isnull', 'isnotnull'):
            return [k, sub(draw(st.sampled_from(ALLTYPES)))]
        if k == 'between':
            kind = draw(st.sampled_from(['num', 'num', 'str', 'date']))
            if kind == 'num':
                return ['between', sub(num()), sub(num()), sub(num())]
            return ['between', sub(kind), sub(kind), sub(kind)]
        if k == 'in':
            ty = draw(st.sampled_from(['int', 'str', 'date', 'decimal']))
            items = draw(st.lists(VALUES[ty].filter(lambda v: not isinstance(v, (int, D)) or (v >= 0 and not (isinstance(v, D) and v.is_signed()))),
                                  min_size=1, max_size=3))
            return [draw(st.sampled_from(['in', 'notin'])), sub(ty), ['list', [bql.const(v) for v in items]]]
        if k == 'match':
            return [draw(st.sampled_from(['match', 'notmatch'])), sub('str'),
                    draw(literal('str')) if draw(st.booleans()) else sub('str')]
        if k == 'bool':
            return ['fn', 'bool', [sub(draw(st.sampled_from(ALLTYPES)))]]
        return ['fn', 'coalesce', [sub('bool') for _ in range(draw(st.integers(1, 3)))]]
    if t == 'object':
        if len(mine) >= 1 and draw(st.booleans()):
            return ['fn', 'coalesce', [sub('object') for _ in range(draw(st.integers(1, 2)))]]
        return sub('object')
    raise AssertionError(t)


@st.composite
def targets(draw, cols, min_n=1, max_n=4, depth=3, types=SCALARS, alias_p=0.3):
    n = draw(st.integers(min_n, max_n))
    out = []
    for i in range(n):
        t = draw(st.sampled_from(types))
        e = draw(exprs(t, cols, draw(st.integers(0, depth))))
        alias = f'x{i}' if draw(st.floats(0, 1)) < alias_p else None
        out.append((e, alias))
    return out


# ------------------------------------------------------------------ statements

KEYTYPES = ['int', 'decimal', 'str', 'date', 'bool']


@st.composite
def key_exprs(draw, cols, t=None):
    """A low-depth non-aggregate expression with a small value domain (so groups repeat and
    sort keys tie): mostly a bare column."""
    t = t or draw(st.sampled_from(KEYTYPES))
    mine = [n for n, ty in cols if ty == t and n != 'rid']
    if mine and draw(st.integers(0, 3)) > 0:
        return ['col', draw(st.sampled_from(mine))], t
    e = draw(exprs(t, [c for c in cols if c[0] != 'rid'], draw(st.integers(0, 2))))
    if not any(n[0] == 'col' for n in bql.walk(e)):
        # constant keys make one group only: prefer a key that varies
        if ('rid', 'int') in [tuple(c) for c in cols]:
            return ['mod', ['col', 'rid'], bql.const(draw(st.integers(2, 3)))], 'int'
        keyed = [(n, ty) for n, ty in cols if ty in KEYTYPES]
        if keyed:
            n, ty = draw(st.sampled_from(keyed))
            return ['col', n], ty
        n, ty = cols[0]
        return ['isnull', ['col', n]], 'bool'
    return e, t


@st.composite
def agg_calls(draw, cols):
    """(expression, type) for one aggregate call with a row-level argument."""
    cols = [c for c in cols if c[0] != 'rid'] or cols
    fn = draw(st.sampled_from(['count*', 'count', 'sum', 'sum', 'min', 'max', 'first', 'last']))
    if fn == 'count*':
        return ['fn', 'count', [['star']]], 'int'
    if fn == 'count':
        t = draw(st.sampled_from(ALLTYPES))
        return ['fn', 'count', [draw(exprs(t, cols, draw(st.integers(0, 2))))]], 'int'
    if fn == 'sum':
        t = draw(st.sampled_from(['int', 'decimal']))
    elif fn in ('min', 'max'):
        t = draw(st.sampled_from(KEYTYPES))
    else:
        t = draw(st.sampled_from(ALLTYPES))
    return ['fn', fn, [draw(exprs(t, cols, draw(st.integers(0, 2))))]], t


def jsonio_copy(e):
    import copy
    return copy.deepcopy(e)


@st.composite
def agg_exprs(draw, cols):
    """An aggregate target: an aggregate call, possibly with arithmetic / comparison / function on top."""
    a, t = draw(agg_calls(cols))
    k = draw(st.integers(0, 9))
    if k < 5:
        return a, t
    if t in ('int', 'decimal'):
        form = draw(st.sampled_from(['plus', 'neg', 'ratio', 'cmp', 'mix', 'coalesce', 'twice']))
        if form == 'twice':
            # the same aggregate call occurring twice in one expression
            return [draw(st.sampled_from(['add', 'mul', 'sub'])), a, jsonio_copy(a)], t
        if form == 'plus':
            return [draw(st.sampled_from(['add', 'sub', 'mul'])), a, draw(literal('int'))], t
        if form == 'neg':
            return ['neg', a], t
        if form == 'ratio':
            return ['div', a, ['fn', 'count', [['star']]]], 'decimal'
        if form == 'cmp':
            return [draw(st.sampled_from(['gt', 'le', 'eq'])), a, draw(literal('int'))], 'bool'
        if form == 'coalesce':
            return ['fn', 'coalesce', [a, draw(literal(t))]], t
        b, tb = draw(agg_calls(cols))
        if tb in ('int', 'decimal'):
            return ['add', a, b], ('int' if t == tb == 'int' else 'decimal')
        return a, t
    if t == 'date':
        return draw(st.sampled_from([['fn', 'year', [a]], ['sub', a, draw(literal('date'))]])), 'int'
    if t == 'str':
        return ['fn', 'length', [a]], 'int'
    return ['isnull', a], 'bool'


@st.composite
def having_exprs(draw, cols):
    a, t = draw(agg_calls(cols))
    if t in ('int', 'decimal'):
        return [draw(st.sampled_from(['gt', 'ge', 'lt', 'ne'])), a, draw(st.sampled_from([bql.const(0), bql.const(1), bql.const(2)]))]
    return [draw(st.sampled_from(['isnull', 'isnotnull'])), a]


@st.composite
def order_clauses(draw, cols, tlist, aggregate, keyinfo):
    """ORDER BY items for a target list [(expr, alias)].  keyinfo: list of group-key expressions
    (aggregate queries) that hidden order keys may use."""
    items = []
    for _ in range(draw(st.integers(1, 3))):
        kind = draw(st.sampled_from(['pos', 'name', 'visible', 'hidden', 'hidden']))
        key = None
        if kind == 'pos':
            key = draw(st.integers(1, len(tlist)))
        elif kind == 'name':
            named = [a if a is not None else e[1] for e, a in tlist if a is not None or e[0] == 'col']
            if named:
                key = ['col', draw(st.sampled_from(named))]
        elif kind == 'visible':
            key = draw(st.sampled_from([e for e, _ in tlist]))
        if key is None:
            if aggregate:
                if keyinfo and draw(st.booleans()):
                    key = draw(st.sampled_from(keyinfo))
                else:
                    key = draw(agg_exprs(cols))[0]
            else:
                key = draw(key_exprs(cols))[0]
        items.append((key, draw(st.sampled_from([None, 'ASC', 'DESC', 'DESC']))))
    return items


def sortable(e, cols):
    try:
        return bql.infer(e, dict(cols)) in KEYTYPES
    except bql.IllTyped:
        return False


@st.composite
def plain_selects(draw, table, order=None, distinct=None, limit=None, where=None, max_targets=4, types=KEYTYPES):
    """Non-aggregate SELECT over table (IR)."""
    cols = table['cols']
    tl = draw(targets(cols, 1, max_targets, depth=2, types=types))
    if draw(st.booleans()) and any(n == 'rid' for n, _ in cols):
        tl.append((['col', 'rid'], None))
    w = draw(st.none() | exprs('bool', cols, 2)) if where is None else (draw(exprs('bool', cols, 2)) if where else None)
    ob = None
    if order if order is not None else draw(st.booleans()):
        ob = draw(order_clauses(cols, tl, False, None))
        ob = [(k, d) for k, d in ob if isinstance(k, int) or sortable(k, cols)] or None
        if ob and any(isinstance(k, int) and not sortable(tl[k - 1][0], cols) for k, _ in ob):
            ob = [(k, d) for k, d in ob if not isinstance(k, int)] or None
    dis = draw(st.booleans()) if distinct is None else distinct
    lim = draw(st.none() | st.sampled_from([0, 1, 2, 3, 5, 8, 9, 100])) if limit is None else limit
    return bql.select(tl, ('table', table['name']), w, order_by=ob, distinct=dis, limit=lim)


@st.composite
def agg_selects(draw, table, order=None, distinct=None, limit=None, having=None):
    """Aggregate SELECT over table (IR): keys visible/hidden, given by expression/name/position/implicitly."""
    cols = table['cols']
    nkeys = draw(st.sampled_from([1, 1, 2, 2, 0, 3]))
    keys = [draw(key_exprs(cols)) for _ in range(nkeys)]     # the same key may occur twice
    # a GROUP BY query need not compute any aggregate (one row per group, keys visible or not)
    naggs = draw(st.sampled_from([0, 1, 1, 1, 2, 2, 3])) if nkeys else draw(st.integers(1, 3))
    aggs = [draw(agg_exprs(cols)) for _ in range(naggs)]
    hidden = [draw(st.integers(0, 4)) == 0 for _ in keys]
    if nkeys and all(hidden) and (naggs == 0 or draw(st.booleans())):
        hidden[0] = False
    slots = [('key', i) for i in range(nkeys) if not hidden[i]] + [('agg', i) for i in range(naggs)]
    slots = draw(st.permutations(slots))
    tl = []
    pos_of_key = {}
    for kind, i in slots:
        if kind == 'key':
            e = keys[i][0]
            alias = f'k{i}' if draw(st.integers(0, 3)) == 0 else None
            pos_of_key[i] = (len(tl) + 1, alias if alias else (e[1] if e[0] == 'col' else None))
            tl.append((e, alias))
        else:
            tl.append((aggs[i][0], f'a{i}' if draw(st.integers(0, 2)) == 0 else None))
    implicit = nkeys > 0 and naggs > 0 and not any(hidden) and draw(st.integers(0, 2)) == 0
    gb = None
    if nkeys == 0:
        gb = None
    elif not implicit:
        gb = []
        for i in draw(st.permutations(range(nkeys))):
            modes = ['expr']
            if i in pos_of_key:
                modes.append('pos')
                if pos_of_key[i][1] is not None:
                    modes.append('name')
            mode = draw(st.sampled_from(modes))
            if mode == 'pos':
                gb.append(pos_of_key[i][0])
            elif mode == 'name':
                gb.append(['col', pos_of_key[i][1]])
            else:
                gb.append(keys[i][0])
        if draw(st.integers(0, 3)) == 0:
            # a redundant second reference to one of the keys (same or different form)
            i = draw(st.integers(0, nkeys - 1))
            forms = [keys[i][0]]
            if i in pos_of_key:
                forms.append(pos_of_key[i][0])
                if pos_of_key[i][1] is not None:
                    forms.append(['col', pos_of_key[i][1]])
            gb.insert(draw(st.integers(0, len(gb))), draw(st.sampled_from(forms)))
    hv = None
    if gb is not None and (draw(st.integers(0, 2)) == 0 if having is None else having):
        hv = draw(having_exprs(cols))
    w = draw(st.none() | exprs('bool', cols, 2))
    ob = None
    if order if order is not None else draw(st.booleans()):
        ob = draw(order_clauses(cols, tl, True, [k for k, _ in keys]))
        env = dict(cols)

        def ok(k):
            e = tl[k - 1][0] if isinstance(k, int) else k
            if e[0] == 'col' and e[1] not in env:      # reference to an alias
                e = next(x for x, a in tl if a == e[1])
            try:
                return bql.infer(e, env) in KEYTYPES
            except bql.IllTyped:
                return False
        ob = [(k, d) for k, d in ob if ok(k)] or None
    dis = draw(st.booleans()) if distinct is None else distinct
    lim = draw(st.none() | st.sampled_from([0, 1, 2, 3, 5, 100])) if limit is None else limit
    return bql.select(tl, ('table', table['name']), w, group_by=gb, having=hv, order_by=ob, distinct=dis, limit=lim)
