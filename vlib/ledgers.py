"""Beancount ledgers for the ledger-backed checks: a fixed sample covering every directive type,
loading helpers and connection construction."""
import functools

import beanquery
import beanquery.query_env  # noqa: F401
from beancount import loader

SAMPLE = '''
option "title" "verif sample"
option "operating_currency" "USD"

2019-01-01 commodity USD
  name: "US dollar"
2019-01-01 commodity HOOL
  name: "Hooli"
  export: "NASDAQ:HOOL"
2019-01-01 commodity EUR

2019-01-01 open Assets:Bank:Checking     USD,EUR
  number: "12-34"
  rank: 3
2019-01-01 open Assets:Broker
2019-01-01 open Liabilities:Card          USD
2019-01-01 open Income:Job
2019-01-01 open Expenses:Food
2019-01-01 open Expenses:Fees
2019-01-01 open Equity:Opening-Balances
2019-01-01 open Assets:Old
2019-03-01 close Assets:Old

2019-01-02 pad Assets:Bank:Checking Equity:Opening-Balances
2019-01-03 balance Assets:Bank:Checking  500.00 USD

2019-01-05 * "Employer" "Salary" #work ^pay-1
  ref: "A-1"
  when: 2019-01-04
  Income:Job            -1000.00 USD
    note: "gross"
  Assets:Bank:Checking   1000.00 USD

2019-01-10 * "Grocer" "Food and fee" #food #weekly
  Expenses:Food            40.00 USD
  Expenses:Fees             1.50 USD
    fee: TRUE
  Liabilities:Card        -41.50 USD

2019-01-15 ! "Buy stock"
  amount: 10.5
  Assets:Broker            10 HOOL {100.00 USD, 2019-01-15}
  Assets:Broker             5 HOOL {101.00 USD, 2019-01-15, "lot2"}
  Assets:Bank:Checking  -1505.00 USD

2019-01-20 price HOOL 105.00 USD
2019-02-01 price HOOL 110.00 USD
2019-02-01 price EUR 1.10 USD

2019-02-05 * "Sell stock"
  Assets:Broker            -4 HOOL {100.00 USD, 2019-01-15} @ 110.00 USD
  Assets:Bank:Checking    440.00 USD
  Income:Job              -40.00 USD

2019-02-10 * "Exchange"
  Assets:Bank:Checking   -110.00 USD @ 0.90 EUR
  Assets:Bank:Checking     99.00 EUR

2019-02-11 note Assets:Bank:Checking "called the bank"
2019-02-12 event "location" "Paris"
2019-02-13 document Assets:Bank:Checking "/etc/hostname"
2019-02-14 query "food" "SELECT account, sum(position) WHERE account ~ 'Food' GROUP BY 1"
2019-02-15 custom "budget" Expenses:Food 100.00 USD

2019-03-05 * "Grocer" "March food"
  Expenses:Food            25.00 USD
  Assets:Bank:Checking    -25.00 USD
'''


@functools.lru_cache(maxsize=64)
def load(text):
    entries, errors, options = loader.load_string(text)
    return entries, errors, options


def connect(text):
    entries, errors, options = load(text)
    return beanquery.connect('beancount:', entries=entries, errors=errors, options=options)


def connect_entries(entries, options, errors=()):
    return beanquery.connect('beancount:', entries=entries, errors=list(errors), options=options)
