"""Plain-Python contents of the Beancount-backed tables (scalar columns only), obtained by a direct
traversal of the loaded directives - the reference model's input for queries on ledger tables."""
import datetime
from decimal import Decimal

from beancount.core import data, getters

SCALAR = {str: 'str', int: 'int', datetime.date: 'date', bool: 'bool', Decimal: 'decimal'}
TYPED = {'transactions': data.Transaction, 'prices': data.Price, 'balances': data.Balance, 'notes': data.Note,
         'events': data.Event, 'documents': data.Document}


def _tname(v):
    for t, n in SCALAR.items():
        if type(v) is t:
            return n
    return None


def model_tables(conn, entries):
    """{table name: {'cols': [(name, tname)], 'rows': [tuple]}} for the scalar columns of each table."""
    from checks.c11 import entry_columns, posting_columns
    from beancount.core import inventory
    out = {}
    rows = []
    bal = inventory.Inventory()
    for e in entries:
        if isinstance(e, data.Transaction):
            for p in e.postings:
                rows.append(posting_columns(e, p, None))
    out['postings'] = _table(conn.tables['postings'], rows)
    out['entries'] = _table(conn.tables['entries'], [entry_columns(e) for e in entries])
    for name, cls in TYPED.items():
        out[name] = _table(conn.tables[name], [{c: getattr(e, c, None) for c in conn.tables[name].columns} for e in entries if isinstance(e, cls)])
    oc = getters.get_account_open_close(entries)
    out['accounts'] = {'cols': [('account', 'str')], 'rows': [(a,) for a in oc]}
    return out


def _table(table, dict_rows):
    cols = []
    for name, col in table.columns.items():
        t = SCALAR.get(col.dtype)
        if t is None or (dict_rows and name not in dict_rows[0]):
            continue
        if name in ('cost_label', 'filename', 'id', 'location', 'lineno'):
            continue
        cols.append((name, t))
    rows = [tuple(r[n] for n, _ in cols) for r in dict_rows]
    return {'cols': cols, 'rows': rows}
