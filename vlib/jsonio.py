"""Typed JSON encoding of cases (tables, values, statements, histories) for replay files,
case hashing and evidence samples.  Pure data in, pure data out."""
import datetime
import hashlib
import json
from decimal import Decimal


def _bc():
    from beancount.core import amount, position, inventory
    return amount, position, inventory


TYPE_NAMES = {}


def _type_names():
    if not TYPE_NAMES:
        from dateutil.relativedelta import relativedelta
        amount, position, inventory = _bc()
        TYPE_NAMES.update({
            int: 'int', Decimal: 'decimal', str: 'str', datetime.date: 'date', bool: 'bool',
            object: 'object', set: 'set', list: 'list', dict: 'dict', type(None): 'null',
            amount.Amount: 'amount', position.Position: 'position', position.Cost: 'cost',
            inventory.Inventory: 'inventory', relativedelta: 'interval',
        })
    return TYPE_NAMES


def type_by_name(name):
    for t, n in _type_names().items():
        if n == name:
            return t
    raise KeyError(name)


def type_name(t):
    return _type_names().get(t, getattr(t, '__name__', repr(t)))


def enc(v):
    if v is None or isinstance(v, (bool, int, str)):
        return v
    if isinstance(v, float):
        return {'$f': repr(v)}
    if isinstance(v, Decimal):
        return {'$D': str(v)}
    if isinstance(v, datetime.date):
        return {'$d': v.isoformat()}
    if isinstance(v, list):
        return [enc(x) for x in v]
    amount, position, inventory = _bc()
    if isinstance(v, amount.Amount):
        return {'$A': [enc(v.number), v.currency]}
    if isinstance(v, position.Cost):
        return {'$C': [enc(v.number), v.currency, enc(v.date), v.label]}
    if isinstance(v, position.Position):
        return {'$P': [enc(v.units), enc(v.cost)]}
    if isinstance(v, inventory.Inventory):
        return {'$I': [enc(p) for p in v.get_positions()]}
    if isinstance(v, tuple):
        return {'$t': [enc(x) for x in v]}
    if isinstance(v, (set, frozenset)):
        return {'$s': sorted((enc(x) for x in v), key=lambda x: json.dumps(x, sort_keys=True))}
    if isinstance(v, dict):
        if all(isinstance(k, str) and not k.startswith('$') for k in v):
            return {k: enc(x) for k, x in v.items()}
        return {'$m': [[enc(k), enc(x)] for k, x in v.items()]}
    if isinstance(v, type):
        return {'$T': type_name(v)}
    from dateutil.relativedelta import relativedelta
    if isinstance(v, relativedelta):
        return {'$rd': [v.years, v.months, v.days]}
    return {'$repr': repr(v)}


def dec(v):
    if isinstance(v, list):
        return [dec(x) for x in v]
    if not isinstance(v, dict):
        return v
    if len(v) == 1:
        (k, x), = v.items()
        if k == '$f':
            return float(x)
        if k == '$D':
            return Decimal(x)
        if k == '$d':
            return datetime.date.fromisoformat(x)
        if k == '$t':
            return tuple(dec(i) for i in x)
        if k == '$s':
            return {dec(i) for i in x}
        if k == '$m':
            return {dec(a): dec(b) for a, b in x}
        if k == '$T':
            return type_by_name(x)
        if k == '$repr':
            return x
        if k in ('$A', '$C', '$P', '$I'):
            amount, position, inventory = _bc()
            if k == '$A':
                return amount.Amount(dec(x[0]), x[1])
            if k == '$C':
                return position.Cost(dec(x[0]), x[1], dec(x[2]), x[3])
            if k == '$P':
                return position.Position(dec(x[0]), dec(x[1]))
            inv = inventory.Inventory()
            for p in x:
                inv.add_position(dec(p))
            return inv
        if k == '$rd':
            from dateutil.relativedelta import relativedelta
            return relativedelta(years=x[0], months=x[1], days=x[2])
    return {k: dec(x) for k, x in v.items()}


def dumps(v, **kw):
    return json.dumps(enc(v), sort_keys=True, **kw)


def loads(s):
    return dec(json.loads(s))


def case_hash(v):
    return hashlib.sha1(dumps(v).encode()).hexdigest()[:16]


def short(v, limit=600):
    """A bounded, JSON-safe rendering of a case for evidence samples."""
    e = enc(v)
    s = json.dumps(e, sort_keys=True)
    if len(s) <= limit:
        return e
    return {'$truncated': s[:limit]}
