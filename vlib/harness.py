"""Running a generated statement through beanquery and through the reference model."""
from . import bql, htables, jsonio, refmodel
from .runner import exc_sig


def py_cols(cols):
    return [(n, jsonio.type_by_name(t)) for n, t in cols]


def connect(tabs, default=None):
    """tabs: list of {'name','cols','rows'} -> (Connection, {name: HTable})."""
    hts = {t['name']: htables.HTable(t['name'], py_cols(t['cols']), t['rows']) for t in tabs}
    conn = htables.connection(hts.values(), hts[default] if default else None)
    return conn, hts


def model_tables(tabs, default=None):
    out = {t['name']: {'cols': [tuple(c) for c in t['cols']], 'rows': [tuple(r) for r in t['rows']]} for t in tabs}
    if default:
        out['postings'] = out[default]
    return out


_PARSED = {}


def parsed(text):
    """Parse a fixed statement text once per process (TatSu needs 10-100 ms per statement)."""
    if text not in _PARSED:
        import beanquery.parser
        _PARSED[text] = beanquery.parser.parse(text)
    return _PARSED[text]


def engine(conn, query, params=None):
    """-> ('ok', description, rows) | ('exc', exception)"""
    try:
        cur = conn.execute(query, params)
        return 'ok', cur.description, cur.fetchall()
    except Exception as exc:  # noqa: BLE001 - classified by the caller
        return 'exc', exc, None


def model(sel, tabs, default=None, wildcard=None):
    """-> ('ok', names, types, rows) | ('undef', message)"""
    try:
        names, types, rows = refmodel.run_select(sel, model_tables(tabs, default), 'postings', wildcard)
        return 'ok', names, types, rows
    except refmodel.Undefined as exc:
        return 'undef', str(exc), None, None


def describe_types(description):
    return [jsonio.type_name(d.datatype) for d in description]


def compare_select(case, ordered=True, conn=None, model_tabs=None):
    """Run case {'tables', 'default', 'sel', 'text'} both ways.

    Returns (fails, info): fails is a list of (sig, detail); info has the model/engine results."""
    fails = []
    info = {}
    if model_tabs is not None:
        # tables given directly (ledger traversal): the engine runs on the supplied connection
        try:
            m = ('ok',) + refmodel.run_select(case['sel'], model_tabs, 'postings')
        except refmodel.Undefined as exc:
            m = ('undef', str(exc))
    else:
        m = model(case['sel'], case['tables'], case.get('default'))
    if m[0] == 'undef':
        info['undef'] = m[1]
        return fails, info
    _, names, types, want = m
    if conn is None:
        conn, _ = connect(case['tables'], case.get('default'))
    query = bql.to_ast(case['sel']) if case.get('via_ast') else case['text']
    r = engine(conn, query, case.get('params'))
    if r[0] == 'exc':
        fails.append((exc_sig(r[1], 'accepted-query-raises'), f"{case['text']!r}: {r[1]!r}"))
        return fails, info
    _, desc, got = r
    info.update(names=names, types=types, want=want, got=got, desc=desc)
    gtypes = describe_types(desc)
    if gtypes != types:
        fails.append(('datatype', f"{case['text']!r}: description {gtypes}, static types {types}"))
    ok = refmodel.same_rows(got, want) if ordered else refmodel.same_rows(
        sorted(got, key=repr), sorted(want, key=repr))
    if not ok:
        fails.append((classify_mismatch(got, want), f"{case['text']!r}\n got  {got!r}\n want {want!r}"))
    return fails, info


def classify_mismatch(got, want):
    if len(got) != len(want):
        return 'rows:count'
    if sorted(map(repr, got)) == sorted(map(repr, want)):
        return 'rows:order'
    for g, w in zip(got, want):
        for x, y in zip(g, w):
            if not refmodel.same_value(x, y):
                if x is None or y is None:
                    return 'cell:null'
                if type(x) is not type(y):
                    return 'cell:type'
                return 'cell:value'
    return 'rows:shape'


def force_aliases(sel):
    """Give every expression target an alias so that the statement can be executed from its AST
    (without source text an expression target has no text to be named by)."""
    if sel['targets'] != '*':
        sel['targets'] = [(e, a if a is not None or e[0] == 'col' else f'e{i}') for i, (e, a) in enumerate(sel['targets'])]
    return sel


def nodes(e):
    return list(bql.walk(e))
