"""In-memory harness tables registered on a beanquery Connection through the public
`Connection.tables` mapping.  One accessor class per column (like BeanTable.column)."""
import beanquery
import beanquery.query_env  # noqa: F401  (registers the BQL functions)
from beanquery import query_compile as qc
from beanquery import tables


def _column(index, dtype, name):
    class Col(qc.EvalColumn):
        def __init__(self):
            super().__init__(dtype)

        def __call__(self, row):
            return row[index]
    Col.__name__ = f'col_{name}'
    return Col()


class HTable(tables.Table):
    """cols: [(name, python type)], rows: list of tuples."""

    def __init__(self, name, cols, rows):
        self.name = name
        self.cols = list(cols)
        self.columns = {n: _column(i, t, n) for i, (n, t) in enumerate(cols)}
        self.rows = [tuple(r) for r in rows]
        self.iterations = 0

    def __iter__(self):
        self.iterations += 1
        return iter(self.rows)

    def update(self, **kwargs):
        # FROM <expression> [OPEN/CLOSE/CLEAR] calls table.update(); a harness table has no
        # such qualifiers and is returned unchanged.
        return self


def connection(tabs, default=None):
    """A fresh Connection holding the given HTables; `default` is also registered as the
    table used when a statement has no FROM clause ('postings')."""
    conn = beanquery.Connection()
    for t in tabs:
        conn.tables[t.name] = t
    if default is not None:
        conn.tables['postings'] = default
    return conn
