exec(open('t1.py').read().split('run("SELECT a FROM #t WHERE a IN')[0])
for q in ["SELECT (SELECT 1 FROM #t) FROM #t", "SELECT SELECT 1", "SELECT a FROM #t WHERE (SELECT 1 FROM #t)", "SELECT count(SELECT a FROM #t) FROM #t",
          "SELECT a FROM #t ORDER BY (SELECT 1 FROM #t)", "SELECT a FROM #t GROUP BY (SELECT 1 FROM #t)", "SELECT a.x FROM #t", "SELECT a['x'] FROM #t", "SELECT * FROM #t GROUP BY 1",
          "SELECT count(*) FROM #t GROUP BY 0", "SELECT a FROM #t ORDER BY 0", "SELECT a FROM #t LIMIT 0", "SELECT coalesce() FROM #t", "SELECT count() FROM #t", "SELECT *(1)", "SELECT %s FROM #t",
          "SELECT %(x)s, %s FROM #t", "SELECT a FROM #nope", "SELECT a FROM #t PIVOT BY a, b", "SELECT a, a, count(*) FROM #t GROUP BY 1,2 PIVOT BY 1, 2", "SELECT a, b, count(*) FROM #t GROUP BY 1, 2 PIVOT BY 3, 1",
          "SELECT a, b, count(*) FROM #t GROUP BY 1, 2 PIVOT BY 0, 1", "BALANCES", "PRINT", "JOURNAL", "SELECT * FROM #", "SELECT x FROM #", "SELECT 1 FROM # WHERE 1 IN (SELECT 1, 2 FROM #)",
          "SELECT a FROM #t FROM #t", "", ";", "SELECT", "SELECT 1 /*", "SELECT '", "SELECT a FROM #t WHERE a ~ '('", "SELECT a FROM #t WHERE s ~ '('", "SELECT 00000-00-00", "SELECT 0000-01-01", "SELECT 1e5", "SELECT a FROM (SELECT a FROM (SELECT a FROM #t))",
          "SELECT meta('x') FROM #t", "SELECT count(*) FROM #t HAVING count(*) > 1", "SELECT a FROM #t GROUP BY a HAVING count(*)", "SELECT 1 BETWEEN 0 AND 2.5", "SELECT NULL IS NULL, NULL BETWEEN 1 AND 2", "SELECT -'a'", "SELECT NOT 'a'", "SELECT - - 1", "SELECT length(*)", "SELECT min(*) FROM #t",
          "SELECT a FROM #t OPEN ON 2020-01-01", "SELECT a FROM a = 1 OPEN ON 2020-01-01", "SELECT a FROM #t WHERE a IN ()", "SELECT a IN (1,) FROM #t", "SELECT a IN (,) FROM #t", "SELECT a IN (1,,2) FROM #t", "SELECT (1,) FROM #"]:
    run(q)
