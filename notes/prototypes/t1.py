import datetime, traceback
from decimal import Decimal
import beanquery, beanquery.query_env
from beanquery import query_compile as qc, tables

def mkcol(i, dtype):
    class C(qc.EvalColumn):
        def __init__(self): super().__init__(dtype)
        def __call__(self, row): return row[i]
    return C()

class T(tables.Table):
    def __init__(self, name, cols, rows):
        self.name=name
        self.columns={n:mkcol(i,t) for i,(n,t) in enumerate(cols)}
        self.rows=rows
    def __iter__(self): return iter(self.rows)

ctx = beanquery.Connection()
ctx.tables['t'] = T('t', [('a',int),('b',int),('s',str),('d',Decimal),('f',bool)], [(1,2,'x',Decimal('1.5'),True),(2,None,'y',None,False),(3,2,None,Decimal(2),True),(1,5,'x',Decimal('0'),None)])
ctx.tables['u'] = T('u', [('k',int)], [(1,),(3,),(7,)])
def run(q, p=None):
    try:
        c = ctx.execute(q, p)
        print(q, '=>', [(d.name, d.datatype.__name__) for d in c.description], c.fetchall())
    except Exception as e:
        print(q, '=> EXC', type(e).__name__, e)

run("SELECT a FROM #t WHERE a IN (SELECT k FROM #u)")
run("SELECT a IN (SELECT k FROM #u), b FROM #t")
run("SELECT a, a FROM #t ORDER BY 2")
run("SELECT a, b, s FROM #t PIVOT BY a, b")
run("SELECT a, b, count(*) FROM #t GROUP BY a, b PIVOT BY a, b")
run("SELECT a, b, count(*) FROM #t GROUP BY 1, 2, length(s) PIVOT BY 1, 4")
run("SELECT sum(f) FROM #t")
run("SELECT interval('1 day') - interval('2 day') FROM #t")
run("SELECT interval('1 day') - 2020-01-01 FROM #t")
run("SELECT 2020-13-45 FROM #t")
run("SELECT int(decimal('Infinity')) FROM #t")
run("SELECT date(100000000000000000000, 1, 1) FROM #t")
run("SELECT a FROM #t LIMIT 99999999999999999999999")
run("SELECT date_bin('1 month', 2000-02-01, 2000-01-01), date_bin('1 month', 2000-02-02, 2000-01-01), date_bin('31 days', 2000-02-01, 2000-01-01)  FROM #")
c = ctx.execute("SELECT a FROM #t")
try: print(c.description[0][0:2])
except Exception as e: print('slice EXC', type(e).__name__, e)
run("SELECT a, b FROM #t ORDER BY b DESC, a")
run("SELECT DISTINCT a FROM #t ORDER BY b")
run("SELECT %s - %s FROM #", (5, 3))
run("SELECT a FROM #t WHERE a = %s", (1,))
run("SELECT a AS x, b AS x FROM #t ORDER BY x")
run("SELECT count(*) FROM #t WHERE a > 100")
run("SELECT a, count(b), sum(b), min(b), max(b), first(b), last(b) FROM #t GROUP BY a")
run("SELECT NOT NULL, NULL AND FALSE, FALSE AND NULL, NULL OR TRUE, TRUE OR NULL FROM #")
run("SELECT 1 / 0, 1 % 0, 7 / 2, 7 % 2, -7 % 2, 1.0 / 3 FROM #")
