import threading, itertools
import beanquery
from beancount import loader
from beanquery import query_env

L = '''
2019-01-01 open Assets:Bank
2019-01-01 open Income:Job
2019-06-01 * "Pay"
  Income:Job   -1000.00 USD
  Assets:Bank   1000.00 USD
2019-07-01 * "Pay2"
  Income:Job   -5.00 USD
  Assets:Bank   5.00 USD
'''
entries, errors, options = loader.load_string(L)

class Sched:
    """Exactly one worker runs at a time; switches only at yield points."""
    def __init__(self, n, schedule):
        self.n = n; self.schedule = list(schedule)
        self.go = [threading.Semaphore(0) for _ in range(n)]
        self.back = threading.Semaphore(0)
        self.done = [False]*n
        self.local = threading.local()
        self.switches = 0
    def yield_point(self):
        i = getattr(self.local, 'idx', None)
        if i is None: return
        self.back.release(); self.go[i].acquire()
    def worker(self, i, fn, out):
        self.local.idx = i
        self.go[i].acquire()
        try: out[i] = fn()
        except Exception as e: out[i] = ('EXC', type(e).__name__, str(e))
        self.done[i] = True
        self.back.release()
    def run(self, fns):
        out = [None]*self.n
        ths = [threading.Thread(target=self.worker, args=(i, fn, out)) for i, fn in enumerate(fns)]
        for t in ths: t.start()
        k = 0; last = None
        while not all(self.done):
            runnable = [i for i in range(self.n) if not self.done[i]]
            pick = runnable[(self.schedule[k] if k < len(self.schedule) else 0) % len(runnable)]; k += 1
            if last is not None and pick != last: self.switches += 1
            last = pick
            self.go[pick].release(); self.back.acquire()
        for t in ths: t.join()
        return out

CUR = [None]
@query_env.function([int], int, pass_context=True, name='vyield')
def vyield(context, x):
    s = CUR[0]
    if s is not None: s.yield_point()
    return x

q = "SELECT balance, vyield(1), balance WHERE account ~ 'Bank'"
def mk(): 
    ctx = beanquery.connect('beancount:', entries=entries, errors=[], options=options)
    return lambda: ctx.execute(q).fetchall()
serial = mk()()
print('serial', serial)
bad = 0; total = 0
for sched in itertools.product([0,1], repeat=6):
    s = Sched(2, sched); CUR[0] = s
    out = s.run([mk(), mk()])
    CUR[0] = None
    total += 1
    if out[0] != serial or out[1] != serial:
        bad += 1
        if bad == 1: print('schedule', sched, 'gives', out[0])
print(bad, 'of', total, 'schedules differ from serial')
