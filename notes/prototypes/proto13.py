import datetime, sys, collections, io
from decimal import Decimal as D
from hypothesis import given, settings, strategies as st, seed, HealthCheck
import beanquery
from beancount import loader
from beancount.core import data, inventory, interpolate, account_types, compare
from beancount.parser import options as boptions
from beanquery import query_execute

ACCTS = ['Assets:Bank', 'Assets:BankEUR', 'Assets:Broker', 'Liabilities:Card', 'Expenses:Food', 'Expenses:Rent', 'Income:Job', 'Income:Gains', 'Equity:Opening']
D0 = datetime.date(2020, 1, 1)
@st.composite
def ledger(draw):
    n = draw(st.integers(1, 10))
    days = sorted(draw(st.lists(st.integers(1, 60), min_size=n, max_size=n)))
    lots = []   # (units, cost, date)
    out = ['option "operating_currency" "USD"'] + [f'2020-01-01 open {a}' for a in ACCTS]
    for i, dd in enumerate(days):
        date = D0 + datetime.timedelta(days=dd)
        kind = draw(st.sampled_from(['spend', 'pay', 'card', 'buy', 'sell', 'fx', 'spend_eur']))
        amt = draw(st.integers(1, 500)) / D(draw(st.sampled_from([1, 4, 100])))
        amt = D(amt).quantize(D('0.01'))
        flag = draw(st.sampled_from(['*', '!']))
        if kind == 'sell' and not lots: kind = 'buy'
        h = f'{date} {flag} "t{i}"'
        if kind == 'spend': out += [h, f'  Expenses:Food  {amt} USD', '  Assets:Bank']
        elif kind == 'spend_eur': out += [h, f'  Expenses:Rent  {amt} EUR', '  Assets:BankEUR']
        elif kind == 'pay': out += [h, f'  Income:Job  -{amt} USD', '  Assets:Bank']
        elif kind == 'card': out += [h, f'  Expenses:Food  {amt} USD', '  Liabilities:Card']
        elif kind == 'buy':
            u = draw(st.integers(1, 5)); c = draw(st.sampled_from([D('10.00'), D('12.50'), D('100.00')]))
            lots.append([u, c, date]); out += [h, f'  Assets:Broker  {u} HOOL {{{c} USD}}', '  Assets:Bank']
        elif kind == 'sell':
            j = draw(st.integers(0, len(lots) - 1)); u, c, ld = lots[j]; s = draw(st.integers(1, u)); p = draw(st.sampled_from([D('9.00'), D('15.00')]))
            lots[j][0] -= s
            if lots[j][0] == 0: lots.pop(j)
            out += [h, f'  Assets:Broker  -{s} HOOL {{{c} USD, {ld}}} @ {p} USD', f'  Assets:Bank  {s * p} USD', '  Income:Gains']
        elif kind == 'fx':
            out += [h, f'  Assets:Bank  -{amt} USD @ 0.9 EUR', f'  Assets:BankEUR  {(amt * D("0.9")).quantize(D("0.001"))} EUR']
    dsel = st.sampled_from([D0 - datetime.timedelta(days=5), D0 + datetime.timedelta(days=90)] + [D0 + datetime.timedelta(days=d + o) for d in days for o in (-1, 0, 1)])
    op = draw(st.none() | dsel); cl = draw(st.none() | st.just(True) | dsel); clear = draw(st.booleans())
    if op and isinstance(cl, datetime.date) and cl < op: op, cl = cl, op
    return '\n'.join(out) + '\n', op, cl, clear

stats = collections.Counter(); fails = []
def invsum(ps):
    inv = inventory.Inventory()
    for p in ps: inv.add_position(p)
    return inv
@seed(int(sys.argv[1]))
@settings(max_examples=int(sys.argv[2]), deadline=None, database=None, suppress_health_check=list(HealthCheck))
@given(ledger())
def test(c):
    text, op, cl, clear = c
    entries, errors, options = loader.load_string(text)
    if errors: stats['ledger_errors'] += 1; fails.append(('LEDGER', c, errors[:1])); return
    clause = ' '.join(filter(None, [f'OPEN ON {op}' if op else '', ('CLOSE' if cl is True else f'CLOSE ON {cl}') if cl else '', 'CLEAR' if clear else '']))
    if not clause: stats['noclause'] += 1; return
    stats['n'] += 1
    ctx = beanquery.connect('beancount:', entries=entries, errors=[], options=options)
    try:
        rows = ctx.execute(f'SELECT date, flag, narration, account, position, entry FROM {clause}').fetchall()
    except Exception as ex:
        stats['exc:' + type(ex).__name__] += 1; return
    atypes = boptions.get_account_types(options)
    e = cl if isinstance(cl, datetime.date) else None
    orig = [(en.date, en.flag, en.narration, p.account, data.Posting(p.account, p.units, p.cost, None, None, None)) for en in entries if isinstance(en, data.Transaction) for p in en.postings]
    inwin = [(d, f, n, a) + ((pp.units, pp.cost),) for d, f, n, a, pp in orig if (op is None or d >= op) and (e is None or d < e)]
    got_orig = [(r[0], r[1], r[2], r[3], (r[4].units, r[4].cost)) for r in rows if r[1] in '*!']
    problems = []
    if got_orig != inwin: problems.append(('A', got_orig[:3], inwin[:3]))
    tot = collections.defaultdict(inventory.Inventory)
    for r in rows: tot[r[3]].add_position(r[4])
    for a in ACCTS:
        before_e = invsum(pp for d, f, n, acc, pp in orig if acc == a and (e is None or d < e))
        inper = invsum(pp for d, f, n, acc, pp in orig if acc == a and (e is None or d < e) and (op is None or d >= op))
        if account_types.is_balance_sheet_account(a, atypes) and not a.startswith('Equity'):
            if tot[a] != before_e: problems.append(('B', a, str(tot[a]), str(before_e)))
        elif account_types.is_income_statement_account(a, atypes):
            exp = inventory.Inventory() if clear else inper
            if tot[a] != exp: problems.append(('C', a, str(tot[a]), str(exp)))
    txns = {}
    for r in rows: txns[id(r[5])] = r[5]
    for t in txns.values():
        res = interpolate.compute_residual(t.postings)
        if not res.is_small(interpolate.infer_tolerances(t.postings, options)): problems.append(('D', t.narration, str(res)))
    grand = invsum(r[4] for r in rows).reduce(lambda p: p.units)
    if problems:
        stats['fail'] += 1; fails.append((clause, c, problems))
    stats['ok'] += 1
test()
print(stats)
for f in fails[:4]:
    print(f[0]); print(f[1][0]); print(f[2][:4])
