exec(open('t1.py').read().split('run("SELECT a FROM #t WHERE a IN')[0])
for q in ["SELECT  a+1 , (a + 1) ,( a ) , (a)+(1)  /* c */ , a /* x */ + 1, -a, - a , +a, a\n+\n1, ((a+1)) * 2, length( s ) ,a IS  NULL, NOT a=1 FROM #t LIMIT 1",
          "select A, Sum(B) As Total from #T group by A order by TOTAL desc",
          "SELECT a FROM #t WHERE a = 1 ; ", "SELECT a FROM #t ; /* x */", "SELECT a FROM #t ; -- x", "SELECT 'it''s' FROM #", 'SELECT "a\'b", \'c"d\' FROM #',
          "SELECT 1.5.x FROM #", "SELECT 1.e FROM #", "SELECT 007, 1., .5, 00.50 FROM #", "SELECT 2020-1-1, 2020-01-01, 2020 - 01 - 01, 2020-01-011 FROM #",
          "SELECT a FROM #t ORDER BY a desc, b Asc", "SELECT a AS select FROM #t", "SELECT a AS b1_ FROM #t", "SELECT a AS null FROM #t", "SELECT a AS true FROM #t", "SELECT a AS open FROM #t", "SELECT nullx FROM #t",
          "SELECT a FROM #t WHERE a IN(1,2)", "SELECT a FROM #t WHERE a NOT\nIN (1,2)", "SELECT a FROM #t WHERE NOT(a=1)AND(b=2)", "SELECT a FROM #t WHERE a=1AND b=2", "SELECT a FROM #t WHERE a BETWEEN 1 AND 2 AND b = 2",
         ]:
    run(q)
