import datetime, traceback, io
from decimal import Decimal
import beanquery
from beancount import loader
L = '''
option "operating_currency" "USD"
2019-01-01 open Assets:Bank USD,EUR
  k: "openmeta"
2019-01-01 open Assets:Broker
2019-01-01 open Expenses:Food
2019-01-01 open Income:Job
2019-01-01 open Equity:Opening
2019-01-01 commodity HOOL
  name: "Hooli"
2019-06-01 * "Boss" "Pay" #tag1 ^link1
  Income:Job   -1000.00 USD
  Assets:Bank   1000.00 USD
    pm: "x"
2019-07-01 * "Buy"
  Assets:Broker  2 HOOL {100.00 USD}
  Assets:Bank   -200.00 USD
2019-07-05 price HOOL 120.00 USD
2019-08-01 * "Lunch"
  em: 12
  Expenses:Food  10.50 USD
  Assets:Bank
2019-08-02 note Assets:Bank "a note"
2019-08-02 note Expenses:Food "b note"
2019-08-03 note Assets:Bank "c note"
2019-09-01 pad Assets:Bank Equity:Opening
2019-09-02 balance Assets:Bank 1000 USD
2019-10-01 event "loc" "Paris"
2019-11-01 close Assets:Broker
'''
entries, errors, options = loader.load_string(L)
print(errors)
ctx = beanquery.connect('beancount:', entries=entries, errors=errors, options=options)
def run(q, p=None):
    try:
        c = ctx.execute(q, p)
        print(q, '=>', [(d.name, d.datatype.__name__) for d in c.description]); 
        for r in c.fetchall(): print('    ', r)
    except Exception as e:
        print(q, '=> EXC', type(e).__name__, e)
run("SELECT account, count(*) FROM #notes GROUP BY comment")
run("SELECT comment FROM #notes ORDER BY account")
run("SELECT account, comment FROM #notes ORDER BY account")
run("SELECT account, position, balance, balance WHERE account ~ 'Bank'")
run("SELECT account, other_accounts, tags, links, cost_label, filename, lineno LIMIT 3")
run("SELECT sum(position), units(sum(position)), sum(units(position)), cost(sum(position)), sum(cost(position))")
run("SELECT * FROM #accounts")
run("SELECT * FROM #commodities")
run("SELECT * FROM #prices")
run("SELECT * FROM #balances")
run("SELECT * FROM #events")
run("SELECT type, date, id FROM #entries")
run("BALANCES")
run("JOURNAL 'Bank' AT cost")
run("SELECT account, sum(position) FROM OPEN ON 2019-07-15 CLOSE ON 2019-08-15 CLEAR GROUP BY 1")
run("SELECT meta('pm'), entry_meta('em'), any_meta('em'), any_meta('pm'), open_meta(account, 'k'), commodity_meta(currency, 'name'), open_date(account), close_date(account)")
