import datetime, sys, collections, traceback
from decimal import Decimal as D
import decimal
from hypothesis import given, settings, strategies as st, seed, HealthCheck, event
import beanquery, beanquery.query_env
from beanquery import query_compile as qc, tables
from beanquery.parser import ast as A

TYPES = [int, D, str, datetime.date, bool]
def mkcol(i, dtype):
    class C(qc.EvalColumn):
        def __init__(self): super().__init__(dtype)
        def __call__(self, row): return row[i]
    return C()
class T(tables.Table):
    def __init__(self, name, cols, rows):
        self.name=name; self.columns={n:mkcol(i,t) for i,(n,t) in enumerate(cols)}; self.rows=rows
    def __iter__(self): return iter(self.rows)

vals = {
 int: st.integers(-6, 6) | st.sampled_from([0, 1, 1000, -1000]),
 D: st.builds(lambda m, e: D(m).scaleb(-e), st.integers(-9999, 9999), st.integers(0, 3)),
 str: st.text(alphabet='abAB ', max_size=3),
 datetime.date: st.dates(datetime.date(2019,12,28), datetime.date(2020,3,3)),
 bool: st.booleans(),
}
def nullable(s): return st.one_of(st.none(), s, s, s)

# ---- expression generator: returns (ast, text) typed
@st.composite
def expr(draw, T_, cols, depth):
    leaf = depth <= 0 or draw(st.integers(0, 3)) == 0
    mycols = [n for n, t in cols if t is T_]
    if leaf:
        if mycols and draw(st.booleans()):
            return ('col', draw(st.sampled_from(mycols)))
        return ('const', T_, draw(vals[T_]))
    d = depth - 1
    sub = lambda t: expr(t, cols, d)
    num = st.sampled_from([int, D])
    if T_ is int:
        k = draw(st.sampled_from(['add','sub','mul','mod','neg','datesub','length','year','coalesce']))
        if k in ('add','sub','mul','mod'): return (k, draw(sub(int)), draw(sub(int)))
        if k == 'neg': return ('neg', draw(sub(int)))
        if k == 'datesub': return ('sub', draw(sub(datetime.date)), draw(sub(datetime.date)))
        if k == 'length': return ('fn', 'length', draw(sub(str)))
        if k == 'year': return ('fn', draw(st.sampled_from(['year','month','day'])), draw(sub(datetime.date)))
        if k == 'coalesce': return ('fn', 'coalesce', draw(sub(int)), draw(sub(int)))
    if T_ is D:
        k = draw(st.sampled_from(['add','sub','mul','div','mod','neg','abs','coalesce']))
        if k in ('add','sub','mul','mod'):
            a, b = draw(num), draw(num)
            if a is int and b is int: a = D
            return (k, draw(sub(a)), draw(sub(b)))
        if k == 'div': return ('div', draw(sub(draw(num))), draw(sub(draw(num))))
        if k == 'neg': return ('neg', draw(sub(D)))
        if k == 'abs': return ('fn', 'abs', draw(sub(D)))
        return ('fn', 'coalesce', draw(sub(D)), draw(sub(D)))
    if T_ is str:
        k = draw(st.sampled_from(['upper','lower','str','coalesce']))
        if k == 'str': return ('fn', 'str', draw(sub(draw(st.sampled_from(TYPES)))))
        if k == 'coalesce': return ('fn', 'coalesce', draw(sub(str)), draw(sub(str)))
        return ('fn', k, draw(sub(str)))
    if T_ is datetime.date:
        k = draw(st.sampled_from(['addi','iadd','subi','coalesce']))
        if k == 'addi': return ('add', draw(sub(datetime.date)), draw(sub(int)))
        if k == 'iadd': return ('add', draw(sub(int)), draw(sub(datetime.date)))
        if k == 'subi': return ('sub', draw(sub(datetime.date)), draw(sub(int)))
        return ('fn', 'coalesce', draw(sub(datetime.date)), draw(sub(datetime.date)))
    if T_ is bool:
        k = draw(st.sampled_from(['cmp','cmp','and','or','not','isnull','isnotnull','between','in','match']))
        if k == 'cmp':
            op = draw(st.sampled_from(['=','!=','<','<=','>','>=']))
            t = draw(st.sampled_from(['num','str','date']))
            if t == 'num': return ('cmp', op, draw(sub(draw(num))), draw(sub(draw(num))))
            tt = str if t == 'str' else datetime.date
            return ('cmp', op, draw(sub(tt)), draw(sub(tt)))
        if k in ('and','or'): return (k, [draw(sub(bool)) for _ in range(draw(st.integers(2,3)))])
        if k == 'not': return ('not', draw(sub(bool)))
        if k in ('isnull','isnotnull'): return (k, draw(sub(draw(st.sampled_from(TYPES)))))
        if k == 'between':
            t = draw(st.sampled_from(['num','str','date']))
            if t == 'num': return ('between', draw(sub(draw(num))), draw(sub(draw(num))), draw(sub(draw(num))))
            tt = str if t == 'str' else datetime.date
            return ('between', draw(sub(tt)), draw(sub(tt)), draw(sub(tt)))
        if k == 'in':
            t = draw(st.sampled_from([int, str]))
            return (draw(st.sampled_from(["in","notin"])), draw(sub(t)), [draw(vals[t].filter(lambda v: not isinstance(v, int) or v >= 0)) for _ in range(draw(st.integers(2,3)))])
        if k == 'match': return (draw(st.sampled_from(['match','notmatch'])), draw(sub(str)), ('const', str, draw(vals[str])))
    raise AssertionError

def lit(t, v):
    if v is None: return 'NULL'
    if t is bool: return 'TRUE' if v else 'FALSE'
    if t is int: return str(v) if v >= 0 else f'(-{-v})'
    if t is D:
        s = format(abs(v), 'f');  s = s if '.' in s else s + '.'
        return s if v >= 0 and not v.is_signed() else f'(-{s})'
    if t is str: return f"'{v}'"
    if t is datetime.date: return v.isoformat()
OPS = {'add':'+','sub':'-','mul':'*','div':'/','mod':'%'}
def text(e):
    k = e[0]
    if k == 'col': return e[1]
    if k == 'const': return lit(e[1], e[2])
    if k in OPS: return f'({text(e[1])} {OPS[k]} {text(e[2])})'
    if k == 'neg': return f'(-{text(e[1])})'
    if k == 'fn': return f'{e[1]}({", ".join(text(x) for x in e[2:])})'
    if k == 'cmp': return f'({text(e[2])} {e[1]} {text(e[3])})'
    if k in ('and','or'): return '(' + f' {k.upper()} '.join(text(x) for x in e[1]) + ')'
    if k == 'not': return f'(NOT {text(e[1])})'
    if k == 'isnull': return f'({text(e[1])} IS NULL)'
    if k == 'isnotnull': return f'({text(e[1])} IS NOT NULL)'
    if k == 'between': return f'({text(e[1])} BETWEEN {text(e[2])} AND {text(e[3])})'
    if k in ('in','notin'):
        t = type(e[2][0])
        return f'({text(e[1])} {"IN" if k=="in" else "NOT IN"} ({", ".join(lit(t, v) for v in e[2])}))'
    if k in ('match','notmatch'): return f'({text(e[1])} {"~" if k=="match" else "!~"} {text(e[2])})'
    raise AssertionError(k)

import re
class Undefined(Exception): pass
def ev(e, row):
    k = e[0]
    if k == 'col': return row[e[1]]
    if k == 'const': return e[2]
    try:
        if k in OPS:
            a = ev(e[1], row)
            if a is None: return None   # left NULL
            b = ev(e[2], row)
            if b is None: return None
            if k == 'add':
                if isinstance(a, datetime.date): return a + datetime.timedelta(days=b)
                if isinstance(b, datetime.date): return b + datetime.timedelta(days=a)
                return a + b
            if k == 'sub':
                if isinstance(a, datetime.date) and isinstance(b, datetime.date): return (a - b).days
                if isinstance(a, datetime.date): return a - datetime.timedelta(days=b)
                return a - b
            if k == 'mul': return a * b
            if k == 'div':
                if b == 0: return None
                if isinstance(a, int) and isinstance(b, int): return D(a) / b
                return a / b
            if k == 'mod':
                if b == 0: return None
                return a % b
        if k == 'neg':
            a = ev(e[1], row); return None if a is None else -a
        if k == 'fn':
            f = e[1]
            if f == 'coalesce':
                for x in e[2:]:
                    v = ev(x, row)
                    if v is not None: return v
                return None
            args = [ev(x, row) for x in e[2:]]
            if any(a is None for a in args): return None
            a = args[0]
            if f == 'length': return len(a)
            if f == 'year': return a.year
            if f == 'month': return a.month
            if f == 'day': return a.day
            if f == 'abs': return abs(a)
            if f == 'upper': return a.upper()
            if f == 'lower': return a.lower()
            if f == 'str': return 'TRUE' if a is True else 'FALSE' if a is False else str(a)
        if k == 'cmp':
            a = ev(e[2], row); b = ev(e[3], row)
            if a is None or b is None: return None
            return {'=': a == b, '!=': a != b, '<': a < b, '<=': a <= b, '>': a > b, '>=': a >= b}[e[1]]
        if k == 'and':
            for x in e[1]:
                v = ev(x, row)
                if v is None: return None
                if not v: return False
            return True
        if k == 'or':
            r = False
            for x in e[1]:
                v = ev(x, row)
                if v is None: r = None
                elif v: return True
            return r
        if k == 'not':
            v = ev(e[1], row); return True if v is None else (not v)
        if k == 'isnull': return ev(e[1], row) is None
        if k == 'isnotnull': return ev(e[1], row) is not None
        if k == 'between':
            a, lo, hi = (ev(x, row) for x in e[1:])
            if a is None or lo is None or hi is None: return None
            return lo <= a <= hi
        if k in ('in','notin'):
            a = ev(e[1], row)
            if a is None: return None
            return (a in e[2]) == (k == 'in')
        if k in ('match','notmatch'):
            a = ev(e[1], row); p = ev(e[2], row)
            if a is None or p is None: return None
            return bool(re.search(p, a, re.IGNORECASE)) == (k == 'match')
    except (OverflowError, decimal.DecimalException) as ex:
        raise Undefined(repr(ex))
    raise AssertionError(k)

@st.composite
def case(draw):
    ncols = draw(st.integers(2, 6))
    cols = [(f'c{i}', draw(st.sampled_from(TYPES))) for i in range(ncols)]
    pools = [draw(st.lists(nullable(vals[t]), min_size=1, max_size=4)) for _, t in cols]
    nrows = draw(st.integers(0, 6))
    rows = [tuple(draw(st.sampled_from(p)) for p in pools) for _ in range(nrows)]
    targets = [(t, draw(expr(t, cols, 3))) for t in [draw(st.sampled_from(TYPES)) for _ in range(draw(st.integers(1, 3)))]]
    where = draw(st.none() | expr(bool, cols, 3))
    return cols, rows, targets, where

stats = collections.Counter(); fails = []
def same(a, b):
    return type(a) is type(b) and a == b
@seed(int(sys.argv[1]) if len(sys.argv) > 1 else 1)
@settings(max_examples=int(sys.argv[2]) if len(sys.argv) > 2 else 300, deadline=None, database=None, suppress_health_check=list(HealthCheck))
@given(case())
def test(c):
    cols, rows, targets, where = c
    q = 'SELECT ' + ', '.join(text(e) for _, e in targets) + ' FROM #t' + (f' WHERE {text(where)}' if where else '')
    ctx = beanquery.Connection(); ctx.tables['t'] = T('t', cols, rows)
    stats['cases'] += 1
    try:
        exp = []
        for r in rows:
            rd = {n: r[i] for i, (n, _) in enumerate(cols)}
            if where is None or ev(where, rd):
                exp.append(tuple(ev(e, rd) for _, e in targets))
    except Undefined:
        stats['undefined'] += 1; return
    try:
        cur = ctx.execute(q); got = cur.fetchall()
    except Exception as ex:
        fails.append((q, cols, rows, 'EXC ' + type(ex).__name__ + ' ' + str(ex))); stats['fail'] += 1; return
    dts = [d.datatype for d in cur.description]
    if dts != [t for t, _ in targets]:
        fails.append((q, cols, rows, f'dtype {dts}')); stats['fail'] += 1; return
    if len(got) != len(exp) or any(not same(x, y) for g, e in zip(got, exp) for x, y in zip(g, e)):
        fails.append((q, cols, rows, f'exp {exp} got {got}')); stats['fail'] += 1
import time; t0 = time.time()
test()
print(stats, round(time.time()-t0, 1), 's')
seen = set()
for f in fails[:400]:
    key = f[3][:40]
    if key in seen: continue
    seen.add(key); print(f[0][:300]); print('   ', f[1], f[2][:3]); print('   ', f[3][:300])
    if len(seen) > 12: break
