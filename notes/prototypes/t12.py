import io, contextlib, sys
from beanquery import shell
import click.testing
out = io.StringIO(); err = io.StringIO()
with contextlib.redirect_stderr(err), contextlib.redirect_stdout(io.StringIO()) as so:
    sh = shell.BQLShell('led.bean', out)
    for cmd in ['.set boxed yes', '.set', '.set nullvalue "NULL"', '.set nullvalue', '.set format csv', '.set format xml', '.set nope 1', '.set boxed maybe', '.set todict', 
                'SELECT account, position', '.run q1', '.bogus', 'help', '.tables', '.set format text', 'select account where number > 5000', '.describe prices', '.explain select 1', 'SELECT nope']:
        out.write(f'>>> {cmd}\n'); err.write(f'>>> {cmd}\n')
        try: sh.onecmd(cmd)
        except Exception as e: out.write(f'EXC {type(e).__name__} {e}\n')
    try: sh.onecmd('.set todict x')
    except Exception as e: out.write(f'EXC {type(e).__name__} {e}\n')
print(out.getvalue()); print('--- stderr'); print(err.getvalue()[:1500]); print('--- stdout'); print(so.getvalue()[:500])
r = click.testing.CliRunner()
for args in (['led.bean', 'SELECT account'], ['-q', 'led.bean', 'SELECT account'], ['-f', 'csv', '-m', 'led.bean', 'SELECT account, position'], ['-o', 'o.txt', 'led.bean', 'SELECT account']):
    res = r.invoke(shell.main, args)
    print(args, 'exit', res.exit_code, 'stdout:', repr(res.stdout[:120]), 'stderr:', repr(res.stderr[:120]), res.exception)
print(open('o.txt').read())
