import io, datetime
from decimal import Decimal as D
import beanquery
from beancount import loader
from beancount.core import data, inventory, interpolate, compare, convert
from beancount.parser import printer
from beanquery import query_execute
L = '''
option "operating_currency" "USD"
2019-01-01 open Assets:Bank
2019-01-01 open Assets:BankEUR
2019-01-01 open Assets:Broker
2019-01-01 open Liabilities:Card
2019-01-01 open Expenses:Food
2019-01-01 open Income:Job
2019-01-01 open Income:Gains
2019-01-01 open Equity:Opening
2019-06-01 * "Boss" "Pay" #tag1 ^link1
  Income:Job   -1000.00 USD
  Assets:Bank   1000.00 USD
2019-07-01 * "Buy"
  Assets:Broker  2 HOOL {100.00 USD}
  Assets:Bank   -200.00 USD
2019-07-03 * "fx"
  Assets:Bank   -110.00 USD @ 0.9 EUR
  Assets:BankEUR  99.00 EUR
2019-07-05 price HOOL 120.00 USD
2019-08-01 ! "Lunch"
  Expenses:Food  10.50 USD
  Liabilities:Card
2019-08-10 * "Sell"
  Assets:Broker  -1 HOOL {100.00 USD} @ 130.00 USD
  Assets:Bank   130.00 USD
  Income:Gains
2019-09-10 * "Late"
  Expenses:Food  5.00 USD
  Assets:Bank
'''
entries, errors, options = loader.load_string(L)
assert not errors, errors
ctx = beanquery.connect('beancount:', entries=entries, errors=errors, options=options)
rows = ctx.execute("SELECT date, flag, narration, account, position, weight, entry FROM OPEN ON 2019-07-02 CLOSE ON 2019-09-01 CLEAR").fetchall()
seen = {}
for r in rows:
    print(r[:6])
    seen[id(r[6])] = r[6]
for e in seen.values():
    res = interpolate.compute_residual(e.postings)
    print(e.date, e.flag, e.narration[:30], 'residual', res, res.is_small(interpolate.infer_tolerances(e.postings, options)))
tot = {}
for r in rows: tot.setdefault(r[3], inventory.Inventory()).add_position(r[4])
for k,v in sorted(tot.items()): print(k, v)
# PRINT roundtrip
q = ctx.compile(ctx.parse("PRINT FROM OPEN ON 2019-07-02 CLOSE ON 2019-09-01 CLEAR"))
f = io.StringIO(); query_execute.execute_print(q, f)
e2, err2, _ = loader.load_string(f.getvalue())
print('reload errors', err2[:2])
same, m1, m2 = compare.compare_entries(list(q.table.prepare()), e2)
print('compare', same, len(m1), len(m2))
for m in m1[:3]: print('missing1', printer.format_entry(m))
for m in m2[:3]: print('missing2', printer.format_entry(m))
