import time, tatsu, dataclasses
from beanquery import parser as P
from beanquery.parser import ast
g = open('/repo/beanquery/parser/bql.ebnf').read()
model = tatsu.compile(g)
class Sem(P.BQLSemantics):
    def _default(self, value, typename=None):
        if typename is not None:
            typename = typename.split('::')[0]
        return super()._default(value, typename)
def mparse(q):
    return model.parse(q, semantics=Sem())
def deq(a, b):
    if type(a) is not type(b): return False
    if isinstance(a, ast.Node):
        return all(deq(getattr(a, f.name), getattr(b, f.name)) for f in dataclasses.fields(a) if f.compare)
    if isinstance(a, list): return len(a) == len(b) and all(deq(x, y) for x, y in zip(a, b))
    return a == b and str(a) == str(b)
qs = ["SELECT a, b+1 AS c FROM #t WHERE NOT a = 1 AND b IN (1,2,) GROUP BY 1 HAVING count(*) > 1 ORDER BY c DESC LIMIT 3",
      "BALANCES AT cost FROM year = 2014 CLOSE", "SELECT - a.b['x'] % 3", "SELECT 1 < 2 < 3", "JOURNAL 'x' AT units FROM OPEN ON 2020-01-01",
      "SELECT DISTINCT * FROM (SELECT a FROM #t) PIVOT BY 1, a", "PRINT FROM a ~ 'b' CLOSE ON 2020-01-01 CLEAR", "SELECT %s, %(x)s, count(*), x(), NULL, TRUE, 1., 2020-01-01, (1,'a',)", "", "SELECT 2020-13-45"]
for q in qs:
    res = []
    for fn in (mparse, lambda q: P.parser.BQLParser().parse(q, semantics=P.BQLSemantics())):
        t = time.time()
        try: r = fn(q)
        except Exception as e: r = ('EXC', type(e).__name__, getattr(e, 'pos', None))
        res.append((r, time.time()-t))
    (a, ta), (b, tb) = res
    same = deq(a, b) if not isinstance(a, tuple) and not isinstance(b, tuple) else a == b
    print(same, round(ta,4), round(tb,4), repr(q)[:50], a if isinstance(a, tuple) else '', b if isinstance(b, tuple) else '')
