import sys, operator
from decimal import Decimal
from beanquery import query_compile as qc
m = sys.argv[3]
if m == 'or':
    def call(self, context):
        for arg in self.args:
            if arg(context): return True
        return False
    qc.EvalOr.__call__ = call
elif m == 'between':
    def call(self, context):
        operand = self.operand(context)
        if operand is None: return None
        lower = self.lower(context)
        if lower is None: return None
        upper = self.upper(context)
        if upper is None: return None
        return lower <= operand < upper
    qc.EvalBetween.__call__ = call
elif m == 'le_dec_int':
    for op in qc.OPERATORS[qc.ast.LessEq]:
        if op.__intypes__ == [Decimal, int]:
            def init(self, left, right, _op=op): qc.EvalBinaryOp.__init__(self, operator.lt, left, right, bool)
            op.__init__ = init
elif m == 'binnull':
    def call(self, context):
        left = self.left(context)
        right = self.right(context)
        if right is None: return None
        return self.operator(left, right)
    qc.EvalBinaryOp.__call__ = call
exec(open('proto.py').read())
