import io, datetime, sys, collections
from decimal import Decimal as D
from hypothesis import given, settings, strategies as st, seed, HealthCheck
from beancount.core import display_context, amount, position, inventory
from beanquery import query_render as qr
from beanquery.cursor import Column

CUR = ['USD', 'EUR', 'HOOL', 'BTC', 'X']
num = st.builds(lambda m, e: D(m).scaleb(-e), st.integers(-99999, 99999), st.integers(0, 4))
amt = st.builds(amount.Amount, num, st.sampled_from(CUR))
cost = st.builds(position.Cost, num.filter(lambda x: x > 0), st.sampled_from(['USD','EUR']), st.dates(datetime.date(2020,1,1), datetime.date(2020,12,31)), st.none() | st.sampled_from(['l1','lot']))
pos = st.builds(position.Position, amt, st.none() | cost)
def mkinv(ps):
    inv = inventory.Inventory()
    for p in ps: inv.add_position(p)
    return inv
inv = st.lists(pos, max_size=4).map(mkinv)
TY = {int: st.integers(-10**6, 10**6), D: num, str: st.text('abc XY', max_size=8).map(str.strip), bool: st.booleans(), datetime.date: st.dates(datetime.date(1990,1,1), datetime.date(2030,1,1)),
      amount.Amount: amt, position.Position: pos, inventory.Inventory: inv, set: st.frozensets(st.sampled_from(['t1','tag','x']), max_size=3)}
@st.composite
def case(draw):
    types = draw(st.lists(st.sampled_from(list(TY)), min_size=1, max_size=4))
    names = [draw(st.sampled_from(['a','bb','a_long_header','x'])) + str(i) for i, _ in enumerate(types)]
    rows = [tuple(draw(st.none() | TY[t]) if draw(st.integers(0,4)) == 0 else draw(TY[t]) for t in types) for _ in range(draw(st.integers(1, 5)))]
    opts = dict(boxed=draw(st.booleans()), unicode=draw(st.booleans()), spaced=draw(st.booleans()), expand=draw(st.booleans()), narrow=draw(st.booleans()), nullvalue=draw(st.sampled_from(['', 'NULL', '-'])))
    return types, names, rows, opts
stats = collections.Counter(); fails = []
def walk_amounts(v):
    if isinstance(v, amount.Amount): yield v
    elif isinstance(v, position.Position):
        yield v.units
        if v.cost: yield amount.Amount(v.cost.number, v.cost.currency)
    elif isinstance(v, inventory.Inventory):
        for p in v: yield from walk_amounts(p)
@seed(int(sys.argv[1])) 
@settings(max_examples=int(sys.argv[2]), deadline=None, database=None, suppress_health_check=list(HealthCheck))
@given(case())
def test(c):
    types, names, rows, opts = c
    dc = display_context.DisplayContext()
    for r in rows:
        for v in r:
            for a in walk_amounts(v): dc.update(a.number, a.currency)
    cols = [Column(n, t) for n, t in zip(names, types)]
    f = io.StringIO(); stats['n'] += 1
    try:
        qr.render_text(cols, rows, dc, f, **opts)
    except Exception as ex:
        stats['exc'] += 1; fails.append(('EXC ' + type(ex).__name__ + ' ' + str(ex)[:80], c)); return
    lines = f.getvalue().split('\n')[:-1]
    widths = {len(l) for l in lines}
    if len(widths) != 1:
        stats['width'] += 1; fails.append(('WIDTH', c, f.getvalue()))
test()
print(stats)
seen = set()
for f in fails:
    k = f[0][:30] + str(sorted(t.__name__ for t in f[1][0]))
    if k in seen: continue
    seen.add(k); print(f[0], [t.__name__ for t in f[1][0]], f[1][3]); print(f[1][2])
    if len(f) > 2: print(f[2])
    if len(seen) >= 6: break
