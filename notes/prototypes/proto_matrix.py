import sys, operator, itertools, datetime
from decimal import Decimal as D
from beanquery import query_compile as qc
m = sys.argv[1] if len(sys.argv) > 1 else 'none'
if m == 'or':
    def call(self, context):
        for arg in self.args:
            if arg(context): return True
        return False
    qc.EvalOr.__call__ = call
elif m == 'le_dec_int':
    for op in qc.OPERATORS[qc.ast.LessEq]:
        if op.__intypes__ == [D, int]:
            def init(self, left, right, _op=op): qc.EvalBinaryOp.__init__(self, operator.lt, left, right, bool)
            op.__init__ = init
sys.argv = sys.argv[:1]
src = open('proto.py').read().split('@st.composite\ndef case')[0]
exec(src)
pools = {int: [None, -2, 0, 1, 2, 7], D: [None, D('-2'), D('0.0'), D('1'), D('1.5'), D('2.00'), D('7')], str: [None, '', 'a', 'A', 'ab', 'b'],
         datetime.date: [None, datetime.date(2019,12,31), datetime.date(2020,1,1), datetime.date(2020,2,29)], bool: [None, True, False]}
def same(a, b): return type(a) is type(b) and a == b
bad = 0; n = 0; cells = 0
def run(tl, tr, mk):
    global bad, n, cells
    rows = list(itertools.product(pools[tl], pools[tr]))
    ctx = beanquery.Connection(); ctx.tables['t'] = T('t', [('l', tl), ('r', tr)], rows)
    e = mk(('col','l'), ('col','r'))
    q = f'SELECT {text(e)} FROM #t'
    got = [r[0] for r in ctx.execute(q).fetchall()]
    exp = [ev(e, {'l': a, 'r': b}) for a, b in rows]
    n += 1; cells += len(rows)
    for g, x, r in zip(got, exp, rows):
        if not same(g, x):
            bad += 1
            if bad < 4: print('MISMATCH', q, r, 'exp', x, 'got', g)
for tl, tr in itertools.product([int, D], repeat=2):
    for op in ['=','!=','<','<=','>','>=']:
        run(tl, tr, lambda a, b, op=op: ('cmp', op, a, b))
    for k in ['add','sub','mul','div','mod']:
        run(tl, tr, lambda a, b, k=k: (k, a, b))
for t in (str, datetime.date):
    for op in ['=','!=','<','<=','>','>=']:
        run(t, t, lambda a, b, op=op: ('cmp', op, a, b))
for k in ('and','or'):
    run(bool, bool, lambda a, b, k=k: (k, [a, b]))
    run(bool, bool, lambda a, b, k=k: ('not', (k, [a, b])))
print(m, 'queries', n, 'cells', cells, 'mismatches', bad)
