#!/venv/bin/python
"""Single entry point:  check.py <ID> [--tier quick|thorough] [--replay FILE]

exit 0: property held on everything explored (KNOWN-FINDING lines may be printed)
exit 1: violation(s); one line `VIOLATION property=<id> replay=<path>` each
exit 2: harness error / inconclusive (never a violation)
"""
import argparse
import os
import sys

ROOT = os.path.dirname(os.path.abspath(__file__))


def main():
    ap = argparse.ArgumentParser()
    ap.add_argument('prop')
    ap.add_argument('--tier', default=os.environ.get('VERIF_TIER') or 'quick', choices=['quick', 'thorough'])
    ap.add_argument('--replay')
    ap.add_argument('--seed', type=int)
    args = ap.parse_args()

    if os.environ.get('PYTHONHASHSEED') != '0':
        env = dict(os.environ, PYTHONHASHSEED='0')
        os.execve(sys.executable, [sys.executable, *sys.argv], env)

    os.chdir(ROOT)
    sys.path.insert(0, ROOT)
    deps = os.path.join(ROOT, '.deps')
    if os.path.isdir(deps):
        sys.path.append(deps)
    repo = os.environ.get('VERIF_REPO')
    if repo:
        sys.path.insert(0, repo)
    os.environ.setdefault('BEANQUERY_VERIF', '1')

    try:
        seed = args.seed if args.seed is not None else int(os.environ.get('VERIF_SEED') or '1')
    except ValueError:
        seed = 1

    try:
        from vlib import runner
        return runner.main(args.prop.upper(), args.tier, seed, args.replay)
    except Exception:  # noqa: BLE001
        import traceback
        traceback.print_exc()
        print('HARNESS ERROR', file=sys.stderr)
        return 2


if __name__ == '__main__':
    sys.exit(main())
