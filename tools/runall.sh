#!/bin/sh
# Runs every registered check (quick tier by default) and prints one summary line each.
# usage: tools/runall.sh [seed] [tier]
cd "$(dirname "$0")/.."
SEED=${1:-1}
TIER=${2:-quick}
rc=0
for id in C01 C02 C03 C04 C05 C06 C07 C08 C09 C10 C11 C12 C13 C14 C15 C16 C17 C18 C19 C20; do
  out=$(VERIF_SEED=$SEED /venv/bin/python check.py $id --tier $TIER 2>&1)
  code=$?
  line=$(echo "$out" | grep "^$id $TIER" | tail -1)
  echo "exit=$code $line"
  if [ $code -ne 0 ]; then rc=1; echo "$out" | grep "^violation\|^VIOLATION\|HARNESS" | cut -c1-300 | head -5; fi
done
exit $rc
