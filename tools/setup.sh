#!/bin/sh
# Offline setup: make sure Hypothesis is importable in /venv (it is pre-installed on this image;
# re-install from the offline wheelhouse if a fresh restore lacks it).
/venv/bin/python -c "import hypothesis" 2>/dev/null || \
  /venv/bin/pip install --no-index --find-links /opt/veriftools/wheels hypothesis
/venv/bin/python -c "import hypothesis, beanquery, beancount; print('setup ok: hypothesis', hypothesis.__version__)"
