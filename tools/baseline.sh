#!/bin/sh
# Runs the repository's pinned test suite (hook guard OFF) in ${1:-/repo} and checks that the
# 241 stable tests recorded in tools/baseline_stable_pass.json (copy of BASELINE.json) pass.
unset BEANQUERY_VERIF
REPO_DIR=${1:-/repo}
out=$(mktemp /dev/shm/baseline.XXXXXX.xml)
cd "$REPO_DIR" && PYTHONPATH="$REPO_DIR" /venv/bin/python -m pytest -ra -q -p no:cacheprovider --timeout=900 --continue-on-collection-errors --junitxml="$out" >/dev/null 2>&1
/venv/bin/python - "$out" <<'PY'
import json, sys, os
import xml.etree.ElementTree as ET
want = set(json.load(open('/verif/tools/baseline_stable_pass.json')))
root = ET.parse(sys.argv[1]).getroot()
passed = set()
for tc in root.iter('testcase'):
    if not any(ch.tag in ('failure', 'error', 'skipped') for ch in tc):
        passed.add(f"{tc.get('classname')}::{tc.get('name')}")
missing = sorted(want - passed)
print(f'baseline: {len(want & passed)}/{len(want)} stable tests pass; {len(passed - want)} other tests pass')
for m in missing[:20]:
    print('  NOT PASSING:', m)
os.unlink(sys.argv[1])
sys.exit(1 if missing else 0)
PY
