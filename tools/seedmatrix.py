#!/venv/bin/python
"""Applies every seeded defect under seeded/ to a scratch worktree of /repo HEAD and runs the quick check
of its property (plus extra checks listed in meta.json 'also') against it.  Writes seeded/MATRIX.json.

usage: tools/seedmatrix.py [name ...]"""
import json
import os
import subprocess
import sys
import tempfile
import time

ROOT = os.path.dirname(os.path.dirname(os.path.abspath(__file__)))


def sh(cmd, **kw):
    return subprocess.run(cmd, capture_output=True, text=True, **kw)


def main():
    names = sys.argv[1:] or sorted(os.listdir(os.path.join(ROOT, 'seeded')))
    path = os.environ.get('VERIF_MATRIX_OUT') or os.path.join(ROOT, 'seeded', 'MATRIX.json')
    matrix = json.load(open(path)) if os.path.exists(path) else {}
    head = sh(['git', '-C', '/repo', 'log', '--format=%h', '-1']).stdout.strip()
    for name in names:
        sdir = os.path.join(ROOT, 'seeded', name)
        if not os.path.isdir(sdir):
            continue
        meta = json.load(open(os.path.join(sdir, 'meta.json')))
        checks = [meta['property']] + [c for c in meta.get('also', []) if c != meta['property']]
        d = tempfile.mkdtemp(prefix='wt-seed-', dir='/dev/shm')
        os.rmdir(d)
        sh(['git', '-C', '/repo', 'worktree', 'add', '-q', '--detach', d, 'HEAD'])
        try:
            r = sh(['git', '-C', d, 'apply', os.path.join(sdir, 'patch.diff')])
            if r.returncode != 0:
                r = sh(['git', '-C', d, 'apply', '-3', os.path.join(sdir, 'patch.diff')])
            entry = {'repo_head': head, 'applies': r.returncode == 0, 'checks': {}}
            if r.returncode == 0:
                env = dict(os.environ, PYTHONPATH=d)
                env.pop('BEANQUERY_VERIF', None)
                demo = sh(['/venv/bin/python', os.path.join(sdir, 'demo.py')], env=env, cwd=d)
                entry['demo_fails_with_patch'] = demo.returncode != 0
                for cid in checks:
                    t0 = time.time()
                    rr = sh(['/venv/bin/python', os.path.join(ROOT, 'check.py'), cid, '--tier', 'quick'],
                            env=dict(os.environ, VERIF_REPO=d, VERIF_EVIDENCE_DIR='/dev/shm/seed-evidence'), cwd=ROOT)
                    sigs = [l.split(':', 1)[1].strip()[:160] for l in rr.stdout.splitlines() if l.startswith('violation:')]
                    entry['checks'][cid] = {'exit': rr.returncode, 'caught': rr.returncode == 1, 'wall_s': round(time.time() - t0, 1),
                                            'violations': sigs[:4]}
            matrix[name] = entry
            print(name, json.dumps({c: v['caught'] for c, v in entry['checks'].items()}), 'applies' if entry['applies'] else 'PATCH DOES NOT APPLY')
        finally:
            sh(['git', '-C', '/repo', 'worktree', 'remove', '--force', d])
        with open(path, 'w') as f:
            json.dump(matrix, f, indent=1, sort_keys=True)
    # restore evidence written by the mutated runs? evidence files are rewritten by the next clean run


if __name__ == '__main__':
    main()
