#!/venv/bin/python
"""Regenerates MANIFEST.json from the table below (kept valid at all times)."""
import json
import os

ROOT = os.path.dirname(os.path.dirname(os.path.abspath(__file__)))

# id -> (technique, level text, level note, design ref)
CHECKS = {
    'C01': ('exhaustive operator x operand-type matrix over value pools + Hypothesis typed-expression generation, vs an independent three-valued reference evaluator',
            'Every operator, implicit cast and total scalar function is evaluated over the full cross product of small '
            'value pools (NULL, zero, negatives, equal int/decimal values, empty strings, leap days) as target and as '
            'WHERE condition and compared cell by cell, type-strictly, with a reference evaluator written from the '
            'property text; random typed expression trees (depth <= 4) over NULL-rich tables add nesting and clause '
            'interaction. Exhaustive over the pools, sampled beyond them.',
            'Trusted: vlib/refmodel.py (reference semantics), vlib/bql.py (printer, typing table), CPython arithmetic on '
            'int/Decimal/date. Cases where the reference arithmetic is undefined are discarded and counted.',
            'DESIGN.md section 4, C01'),
    'C02': ('enumerated aggregate x argument-type x key-form matrix + Hypothesis aggregate-query generation vs reference model; metamorphic additivity on engine results',
            'Aggregate SELECTs with 0..3 grouping keys given by expression / output name / position / hidden / implicitly, '
            'all aggregates over all admissible argument types with arithmetic on top, WHERE and HAVING, are compared '
            '(rows in order of first appearance, type-strict cells, datatypes) with a reference partition-and-fold model; '
            'independently, per-group count/sum results must add up to ungrouped totals and a second key must refine the '
            'first. Bounded tables (<= 8 rows, value pools <= 5), sampled.',
            'Trusted: vlib/refmodel.py fold/partition semantics; exact decimal arithmetic (no division) in the additive part.',
            'DESIGN.md section 4, C02'),
    'C03': ('enumerated direction-pattern x key-form matrix + Hypothesis generation vs reference pipeline; model-free chain (permutation, sortedness with NULL lowest, stability via row ids, DISTINCT/LIMIT as dedup/prefix) on engine results',
            'All ASC/DESC patterns of 1..3 keys in every key form over a table with ties and NULLs in each key (exhaustive '
            'over that table), random aggregate and non-aggregate queries with ORDER BY / DISTINCT / LIMIT against the '
            'reference pipeline, and a two-directional model-free check: the ordered result is a permutation of the '
            'unordered one, ordered under the stated comparison, stable, and DISTINCT/LIMIT are first-occurrence dedup and '
            'prefix. LIMIT probed up to 10^30.',
            'Trusted: vlib/refmodel.py (one stable pass per key), Python sort; sort keys limited to comparable scalars.',
            'DESIGN.md section 4, C03'),
    'C04': ('run-time enumeration of the OPERATORS / FUNCTIONS registries x parameter bindings (declared type, subtypes, untyped) x value pools with NULLs; conformance predicate on every value, rendering and numberify smoke oracle; COALESCE type pairs; every column and attribute chain of the ledger tables on Hypothesis-generated ledgers',
            'Every registered overload is called over cross products of per-type value pools with NULL in every position; each '
            'value must be NULL or conform to the announced datatype, the result must render as text and CSV and numberify, '
            'and no TypeError / AttributeError may escape (domain errors are counted). COALESCE is probed over all ordered type '
            'pairs. On generated ledgers every column of every table and every attribute chain of the structured types to '
            'depth 3 is selected, also under OPEN/CLOSE/CLEAR (postings without metadata). Overloads that never produced a '
            'non-NULL value are listed in the evidence.',
            'Trusted: the conformance predicate in checks/c04.py; value pools are small fixed sets per type.',
            'DESIGN.md section 4, C04'),
    'C05': ('enumerated single-rule violations (~2500 statements, also over FROM-subqueries, incl. the complement of the operator/function typing table) expecting a ProgrammingError-family rejection; Hypothesis well-formed programs expecting acceptance; mutated / token-soup texts with exception bucketing; location-span and rendering checks',
            'Both directions of "accepted exactly when": generated well-formed statements (text and AST) must compile, and an '
            'enumerated catalogue of statements each breaking one rule must be rejected with ParseError / CompilationError / '
            'ProgrammingError; token-level mutations and token soups, parsed and compiled against typed tables, must never '
            'raise any other exception class; every carried location must be a valid span that shell.render_exception can '
            'render. Known open findings are masked by exact root-cause signature.',
            'Trusted: the rule catalogue in checks/c05.py (my reading of the property); function-argument ill-typedness is only '
            'asserted where subclassing cannot match (bool/int, NULL/object).',
            'DESIGN.md section 4, C05'),
    'C06': ('Hypothesis AST generation -> print in canonical and redundant styles -> parse round trip (deep type-strict equality); differential shipped parser vs grammar-compiled parser on valid and mutated texts',
            'Round trip over generated statement ASTs of all four kinds with every clause, operator nesting pair, literal '
            'form and identifier spelling, in three printing styles each; plus a differential run of the shipped parser '
            'against a parser compiled from bql.ebnf at check time on valid, token-mutated and token-soup texts (same AST '
            'or same rejection position). Sampled, not exhaustive; coverage histogram of parent>child@position pairs '
            'is reported.',
            'Trusted: the printer in vlib/bql.py (mirrors the grammar rule by rule), TatSu (used by both parsers). '
            'Regenerating parser.py from the grammar and comparing bytes is reported as a supplement only.',
            'DESIGN.md section 4, C06'),
    'C07': ('Hypothesis statement generation with random layout; executable naming oracle (verbatim substring that parses back to the target expression) + reference model for values; wildcard expansion vs declared columns / inner description',
            'Generated SELECTs with aliased, bare-column and expression targets, duplicate names and hidden GROUP BY / '
            'HAVING / ORDER BY helpers, printed with random whitespace, comments, parentheses and case and executed from '
            'text: description length, row lengths, names by rule and all values are checked; `*` is checked on harness '
            'tables, the default table, nested subqueries (after an unrelated subquery ran in the same process) and every '
            'Beancount-backed table of a sample ledger.',
            'Trusted: vlib/bql.py printer, beanquery.parser for parsing names back (C06 covers the parser), vlib/refmodel.py.',
            'DESIGN.md section 4, C07'),
    'C08': ('Hypothesis generation of nested queries; metamorphic materialisation oracle (inner result registered as a table) + reference model; IN-subquery vs model with inner table different from outer',
            'Chains table -> inner query (-> inner query) -> outer query are executed as FROM-subqueries and, metamorphically, '
            'over a harness table holding the inner result (same rows, names and datatypes required), and compared with the '
            'reference model; SELECT * FROM (q) must equal q. IN / NOT IN subqueries are generated in targets and WHERE with '
            'inner tables different from the outer one, empty results and NULL operands.',
            'Trusted: vlib/refmodel.py; harness tables. Inner output names are unique by construction (duplicate names are a '
            'recorded known finding).',
            'DESIGN.md section 4, C08'),
    'C09': ('Hypothesis: placeholder substitution metamorphic test (parameterised vs literal statement, plus reference model); folded-vs-per-row differential; model-based operation histories on one connection vs fresh-connection oracle with source-data snapshot',
            'Three generated searches: (1) statements in which a random subset of constants becomes %s / %(name)s '
            'placeholders must return what the literal statement returns, binding in textual order; (2) constant '
            'expressions must evaluate identically folded at compile time and per row from columns holding the same '
            'constants; (3) histories of execute(text) / execute(parsed, other parameters) / executemany / compile / fetch '
            'over harness tables and over a Beancount ledger (balance, OPEN/CLOSE/CLEAR, BALANCES, JOURNAL) must give, at '
            'every step, the result of the same statement on a fresh connection and leave the data unchanged.',
            'Trusted: fresh-connection execution as the history oracle (memoised per process); vlib/refmodel.py. Single thread.',
            'DESIGN.md section 4, C09'),
    'C10': ('Hypothesis-generated cursor call histories vs list-and-position model (model-based/stateful PBT)',
            'Bounded random exploration of cursor call histories (result sizes 0..12, <=30 operations, several '
            'cursors per connection) against an executable model of the DB-API protocol; every description entry '
            'is probed with all index/slice forms. Finds protocol defects reachable within those bounds; does not '
            'prove absence.',
            'Trusted: the 120-line model in checks/c10.py; Hypothesis; harness table in vlib/htables.py.',
            'DESIGN.md section 4, C10'),
    'C11': ('Hypothesis ledger generation (structured description -> Beancount text -> loader) with a beanquery-free traversal oracle for every column of every table and every metadata function',
            'For each generated ledger every column of postings, entries, transactions, prices, balances, notes, events, '
            'documents, accounts and commodities is selected and compared value by value with attributes read directly '
            'from the loaded directives (position, weight, other_accounts, id, location, date parts, tags, links, running '
            'balance), and meta / entry_meta / any_meta / open_meta / commodity_meta / open_date / close_date / subscripts '
            'with dictionary lookups, including postings stripped of their metadata. Bounded ledgers (<= 10 transactions).',
            'Trusted: the Beancount loader and booking; the traversal in checks/c11.py; columns without an oracle are listed '
            'in the evidence (currently none).',
            'DESIGN.md section 4, C11'),
    'C12': ('Hypothesis ledgers + selections with Python twin predicates; direct Inventory oracle, homomorphism (f(sum)=sum(f)) and partition additivity as metamorphic relations, prefix-sum model for the running balance',
            'On generated multi-currency ledgers with dated lots, reducing sales and prices in two quote currencies: sums of '
            'position/units/cost/weight/price equal Inventories built directly from the selected postings; units, cost, value '
            'and convert (with and without date) commute with sum exactly; group sums over five partitions add up to the '
            'total; balance equals the prefix sum in every column mentioning it (also around an IN-subquery scanning '
            'postings), its last value equals sum(position), and under a WHERE that consults it first it counts every '
            'scanned posting.',
            'Trusted: beancount.core Inventory/convert/prices as the meaning of inventory sums and conversions; rates are '
            'finite decimals by construction so equality is exact.',
            'DESIGN.md section 4, C12'),
    'C13': ('Hypothesis ledgers x clause subsets x dates on/around entry dates; invariants on observable rows (window, per-account Inventory totals vs direct sums, balanced transactions), filter commutation, cross-form agreement, with unrelated statements run first on the same connection',
            'For generated ledgers and every subset of OPEN / CLOSE (dated or not) / CLEAR with dates before, inside, after '
            'the span and on entry dates: original postings returned are exactly those in [d, e), unchanged and in order; '
            'Assets/Liabilities totals equal the direct sums up to e with lots preserved; Income/Expenses totals equal the '
            'in-period activity, or nothing with CLEAR; every returned transaction balances; a FROM filter commutes with the '
            'clauses; BALANCES / JOURNAL / PRINT agree with the SELECT; CLOSE before OPEN is rejected in all statement forms.',
            'Trusted: Beancount summarize (delegated to) is judged only through the stated invariants; original transactions '
            'are recognised by narration.',
            'DESIGN.md section 4, C13'),
    'C14': ('Hypothesis ledgers + statements; differential against the explicit SELECT expansion and against a direct traversal (Python twin predicates); PRINT output parsed back directive by directive and whole-ledger round trip through the loader',
            'BALANCES (summary none/units/cost, FROM and WHERE predicates, CLOSE/CLEAR qualifiers) must equal the explicit '
            'GROUP BY / ORDER BY account_sortkey SELECT and per-account sums computed directly, ordered by account type then '
            'name; JOURNAL (14 account patterns incl. regex operators and a double quote) must equal the explicit register '
            'SELECT and a direct traversal with prefix-sum balance; PRINT must emit exactly the directives satisfying the '
            'entry-level predicate, in order, and the whole-ledger output must load back to equal directives. A statement of '
            'the same family runs first on the same connection.',
            'Trusted: beancount printer/parser/loader for the round trip; predicates have hand-written Python twins.',
            'DESIGN.md section 4, C14'),
    'C15': ('enumerated pivot-position x reference-form matrix + Hypothesis table/query generation; expected pivot computed from the un-pivoted engine result (itself checked against the reference model); un-pivot round trip; enumerated invalid references',
            'The pivoted result is compared (names, datatypes, rows, NULL fill, ascending block order incl. multi-digit '
            'integers) with a reshaping of the un-pivoted result of the same query, un-pivoting must give every original '
            'row back, by-name and by-position references must agree, and 25 kinds of invalid reference must raise '
            'CompilationError from text and from AST.',
            'Trusted: refmodel.pivot (20 lines); pivot keys are non-NULL comparable scalars.',
            'DESIGN.md section 4, C15'),
    'C16': ('Hypothesis result-table generation over all datatypes and option combinations; invariants on the rendered text (rectangular, column offsets from the rule line, header centring/cutting, line counts, decimal-point alignment) and per-cell read-back; CSV vs text cell differential',
            'Tables of every supported datatype with NULLs, negative and very small numbers, many currencies, empty results '
            'and inventories are rendered under all combinations of boxed/unicode/spaced/expand/narrow/nullvalue/listsep; the '
            'text output is parsed back structurally and every cell must read back to its value (amounts at display '
            'precision); CSV must have a header, one record per expanded row, one field per column holding the same '
            'formatted value.',
            'Trusted: the cell parsers in checks/c16.py; code-point width; display context built from the table (as the loader does).',
            'DESIGN.md section 4, C16'),
    'C17': ('Hypothesis result-table generation (direct numberify_results calls and run_query(numberify=True) on generated ledgers) against an oracle derived from the property statement',
            'Tables mixing plain and Amount/Position/Inventory columns with several currencies, several lots per currency, '
            'NULLs, zero amounts, empty inventories, with and without a formatter of random per-currency precision: plain '
            'columns, row count and order must be untouched, each amount-like column must become `name (CUR)` decimal '
            'columns covering every currency with a non-zero amount, frequencies non-increasing, each cell the summed units '
            '(quantized when a formatter is given) or NULL/zero when absent.',
            'Trusted: beancount DisplayContext.quantize as the definition of display precision.',
            'DESIGN.md section 4, C17'),
    'C18': ('exhaustive enumeration of finite domains (every date 1900-2100 x 34 date laws; 155 account names x n; 341 strings x 169 index pairs; string/regex/set laws) + Hypothesis for inverse laws, date_bin, interval arithmetic, decimal functions; enumerated cast inputs of every type',
            'Calendar laws are checked on every date from 1900-01-01 to 2100-12-31 (first day of unit, <= d, idempotent, '
            'monotone; all extraction functions and 13 date_part fields against Python datetime), account functions on all '
            'names of 1..5 components over the five roots (also with renamed root types, two ledgers in one process), string '
            'functions on all strings of length <= 4 over a 4-letter alphabet with all index arguments -6..6 - these parts '
            'are exhaustive; date arithmetic inverses, date_bin (including exact bin starts) and decimal functions are '
            'sampled (30 000 cases each); 45 cast inputs x 5 casts x typed/untyped columns must give the value or NULL.',
            'Trusted: Python datetime, re, decimal, textwrap, dateutil.relativedelta as the definitions.',
            'DESIGN.md section 4, C18'),
    'C19': ('model-based operation histories on one shell (settings-dictionary model; statement output recomputed through the API and the renderers with explicit arguments); enumerated command-line option subsets through click CliRunner; rewrite-and-reload scenario compared with a fresh shell',
            'Sequences of .set (all accepted spellings, invalid values, unknown and attribute names, wrong arity), .set NAME, '
            'statements in any letter case, .run NAME (default CLOSE date), .tables/.describe/.explain, unknown and legacy '
            'commands are run on one BQLShell in batch mode; after every step `.set` must print the model, errors must leave '
            'it unchanged, dot-commands must not reach the parser, and each statement must print exactly what rendering the '
            'API result under the current settings prints. All 24 subsets of -f/-m/-o/-q are run through shell.main on a '
            'ledger with load errors.',
            'Trusted: query_render / numberify as called directly (C16, C17 check them); batch mode only.',
            'DESIGN.md section 4, C19'),
    'C20': ('deterministic scheduler owning the interleaving of real threads (yield points at an impure BQL function, at row and directive iteration, at column look-ups during compilation, inside sort comparisons, and - trace part - at every function call inside the beanquery package via sys.settrace); Hypothesis-generated and exhaustively enumerated schedules; serial execution as oracle',
            '2-3 queries (balance referenced 0..3 times, aggregates, IN-subqueries, positional and named parameters, OPEN/'
            'CLOSE/CLEAR, BALANCES, JOURNAL, harness tables) run in real threads on a shared connection, separate '
            'connections or separate ledgers; exactly one thread runs at a time and control moves only at harness-placed '
            'yield points, so a run is a pure function of the schedule; every thread must return what its query returns '
            'alone. All 2^8 (thorough: 2^12) schedule prefixes are enumerated for 17 query pairs; 4000 (thorough 100000) '
            'random schedules and 320 (8000) function-call-granularity runs otherwise; parsed statements are shared between the threads in a third of the cases.',
            'Trusted: the scheduler (60 lines). Interleavings inside a single byte code of Beancount/CPython are not explored.',
            'DESIGN.md section 4, C20'),
}

ALL = [f'C{i:02d}' for i in range(1, 21)]

NOT_YET = 'check not built yet in this session (planned, see DESIGN.md section 11); not claimed until it exists'


def main():
    checks = []
    for cid, (technique, text, note, ref) in sorted(CHECKS.items()):
        checks.append({
            'property_id': cid,
            'quick_cmd': f'/venv/bin/python check.py {cid} --tier quick',
            'thorough_cmd': f'/venv/bin/python check.py {cid} --tier thorough',
            'evidence_file': f'evidence/{cid}.json',
            'replay_cmd_template': f'/venv/bin/python check.py {cid} --replay {{path}}',
            'engine': 'pbt',
            'level_claimed': {'category': 'exploration', 'text': text, 'design_ref': ref},
            'level_note': note,
            'technique': technique,
        })
    manifest = {
        'version': 1,
        'setup_cmd': 'sh tools/setup.sh',
        'hooks': {
            'guard': 'BEANQUERY_VERIF',
            'enable': 'no source hooks are needed: every observation point is public API; check.py sets '
                      'BEANQUERY_VERIF=1 but the repository contains no guarded code',
            'baseline_off_cmd': 'sh tools/baseline.sh',
            'source_commits': [],
            'add_only': True,
        },
        'engines': [{
            'name': 'pbt', 'path': 'check.py',
            'serves_properties': sorted(CHECKS),
            'kind_free_text': 'Hypothesis 6.168 property-based testing (typed program/table/ledger/history generators, '
                              'reference models, metamorphic and differential oracles), exhaustive enumeration of '
                              'small finite domains, sharded over 16 processes; runs /repo working tree in-process',
        }],
        'checks': checks,
        'not_applicable': [{'property_id': cid, 'reason': NOT_YET} for cid in ALL if cid not in CHECKS],
        'notes': 'All checks: exit 0 held / 1 VIOLATION lines / 2 harness error. known_findings.json lists repaired '
                 '(fix: commits in /repo) and open findings. Seeded defects used for sensitivity are under seeded/.',
    }
    with open(os.path.join(ROOT, 'MANIFEST.json'), 'w') as f:
        json.dump(manifest, f, indent=1)
        f.write('\n')


if __name__ == '__main__':
    main()
