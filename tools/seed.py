#!/venv/bin/python
"""Confirm a seeded defect and run checks against it, in a scratch worktree of /repo HEAD.

  tools/seed.py verify <dir>            demo passes clean, patch applies, 241 tests pass, demo fails patched
  tools/seed.py check <dir> <ID> [...]  run ./check.py <ID> (quick) against the patched worktree (VERIF_REPO)

<dir> holds patch.diff, demo.py, meta.json.  The worktree lives under /dev/shm and is removed afterwards.
"""
import json
import os
import subprocess
import sys
import tempfile

PY = '/venv/bin/python'


def sh(cmd, **kw):
    return subprocess.run(cmd, shell=isinstance(cmd, str), capture_output=True, text=True, **kw)


def worktree():
    d = tempfile.mkdtemp(prefix='wt-seed-', dir='/dev/shm')
    os.rmdir(d)
    r = sh(['git', '-C', '/repo', 'worktree', 'add', '-q', '--detach', d, 'HEAD'])
    assert r.returncode == 0, r.stderr
    return d


def remove(d):
    sh(['git', '-C', '/repo', 'worktree', 'remove', '--force', d])


def apply(d, patch):
    r = sh(['git', '-C', d, 'apply', patch])
    if r.returncode != 0:
        r = sh(['git', '-C', d, 'apply', '-3', patch])
    return r


def main():
    mode, sdir = sys.argv[1], os.path.abspath(sys.argv[2])
    patch = os.path.join(sdir, 'patch.diff')
    demo = os.path.join(sdir, 'demo.py')
    d = worktree()
    try:
        env = dict(os.environ, PYTHONPATH=d)
        env.pop('BEANQUERY_VERIF', None)
        if mode == 'verify':
            r0 = sh([PY, demo], env=env, cwd=d)
            print('demo on clean tree: exit', r0.returncode)
            r = apply(d, patch)
            print('apply:', 'ok' if r.returncode == 0 else 'FAILED ' + r.stderr[:500])
            if r.returncode != 0:
                return 1
            rt = sh(['/verif/tools/baseline.sh', d])
            print(rt.stdout.strip())
            r1 = sh([PY, demo], env=env, cwd=d)
            print('demo on patched tree: exit', r1.returncode, '|', (r1.stdout + r1.stderr).strip().splitlines()[-1:] )
            ok = r0.returncode == 0 and rt.returncode == 0 and r1.returncode != 0
            print('CONFIRMED' if ok else 'NOT CONFIRMED')
            return 0 if ok else 1
        r = apply(d, patch)
        if r.returncode != 0:
            print('apply FAILED', r.stderr[:500])
            return 1
        rc = 0
        for cid in sys.argv[3:]:
            env2 = dict(os.environ, VERIF_REPO=d, VERIF_EVIDENCE_DIR='/dev/shm/seed-evidence')
            r = sh(['/verif/check.py', cid, '--tier', os.environ.get('SEED_TIER', 'quick')], env=env2, cwd='/verif')
            lines = [l for l in r.stdout.splitlines() if l.startswith(('VIOLATION', 'violation', cid, 'KNOWN', 'regression'))]
            print(f'--- {cid} exit={r.returncode}')
            for l in lines[:12]:
                print('   ', l[:300])
            if r.returncode == 2:
                print(r.stderr[:3000])
        return rc
    finally:
        remove(d)


if __name__ == '__main__':
    sys.exit(main())
